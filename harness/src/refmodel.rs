//! Boring reference semantics. Everything the properties do not pin down is
//! `Exp::Unspec` (checked for totality only).
use crate::val::V;
use std::cmp::Ordering;

#[derive(Clone, Debug)]
pub enum Exp {
    Val(V),
    Fail,
    Unspec,
}

impl Exp {
    pub fn show(&self) -> String {
        match self {
            Exp::Val(v) => format!("Value({})", v.show()),
            Exp::Fail => "Fail".to_string(),
            Exp::Unspec => "Unspecified".to_string(),
        }
    }
}

#[derive(Clone, Copy, Debug, PartialEq, Eq, Hash)]
pub enum Arith {
    Add,
    Sub,
    Mul,
    Div,
    Rem,
}
impl Arith {
    pub const ALL: [Arith; 5] = [Arith::Add, Arith::Sub, Arith::Mul, Arith::Div, Arith::Rem];
    pub fn sym(&self) -> &'static str {
        match self {
            Arith::Add => "+",
            Arith::Sub => "-",
            Arith::Mul => "*",
            Arith::Div => "/",
            Arith::Rem => "%",
        }
    }
}

fn as_int128(v: &V) -> Option<i128> {
    match v {
        V::Int(i) => Some(*i as i128),
        V::UInt(u) => Some(*u as i128),
        V::Bool(b) => Some(*b as i128),
        _ => None,
    }
}

fn as_f64(v: &V) -> Option<f64> {
    match v {
        V::Int(i) => Some(*i as f64),
        V::UInt(u) => Some(*u as f64),
        V::Bool(b) => Some(if *b { 1.0 } else { 0.0 }),
        V::Dbl(d) => Some(*d),
        _ => None,
    }
}

pub fn is_numeric(v: &V) -> bool {
    matches!(v, V::Int(_) | V::UInt(_) | V::Dbl(_))
}

/// `a op b` per property C03
pub fn arith(op: Arith, a: &V, b: &V) -> Exp {
    use V::*;
    // concatenations
    if op == Arith::Add {
        match (a, b) {
            (Str(x), Str(y)) => return Exp::Val(Str(format!("{}{}", x, y))),
            (Bytes(x), Bytes(y)) => {
                let mut r = x.clone();
                r.extend(y);
                return Exp::Val(Bytes(r));
            }
            (List(x), List(y)) => {
                let mut r = x.clone();
                r.extend(y.iter().cloned());
                return Exp::Val(List(r));
            }
            _ => {}
        }
    }
    // time arithmetic belongs to C16
    let timey = |v: &V| matches!(v, Ts(_) | Dur(_));
    if timey(a) && timey(b) && matches!(op, Arith::Add | Arith::Sub) {
        return Exp::Unspec;
    }
    let numish = |v: &V| matches!(v, Int(_) | UInt(_) | Dbl(_) | Bool(_));
    if !numish(a) || !numish(b) {
        return Exp::Fail;
    }
    if matches!(a, Bool(_)) && matches!(b, Bool(_)) {
        return Exp::Fail;
    }
    if matches!(a, Dbl(_)) || matches!(b, Dbl(_)) {
        let x = as_f64(a).unwrap();
        let y = as_f64(b).unwrap();
        return match op {
            Arith::Add => Exp::Val(Dbl(x + y)),
            Arith::Sub => Exp::Val(Dbl(x - y)),
            Arith::Mul => Exp::Val(Dbl(x * y)),
            Arith::Div => Exp::Val(Dbl(x / y)),
            Arith::Rem => Exp::Unspec,
        };
    }
    let x = as_int128(a).unwrap();
    let y = as_int128(b).unwrap();
    let to_int = matches!(a, Int(_)) || matches!(b, Int(_));
    let r: i128 = match op {
        Arith::Add => x + y,
        Arith::Sub => x - y,
        Arith::Mul => match x.checked_mul(y) {
            Some(r) => r,
            None => return Exp::Fail, // |x*y| >= 2^127: outside every result type
        },
        Arith::Div => {
            if y == 0 {
                return Exp::Fail;
            }
            x / y
        }
        Arith::Rem => {
            if y == 0 {
                return Exp::Fail;
            }
            x % y
        }
    };
    if to_int {
        match i64::try_from(r) {
            Ok(v) => Exp::Val(Int(v)),
            Err(_) => Exp::Fail,
        }
    } else {
        match u64::try_from(r) {
            Ok(v) => Exp::Val(UInt(v)),
            Err(_) => Exp::Fail,
        }
    }
}

pub fn neg(a: &V) -> Exp {
    match a {
        V::Int(i) => match i.checked_neg() {
            Some(v) => Exp::Val(V::Int(v)),
            None => Exp::Fail,
        },
        V::Dbl(d) => Exp::Val(V::Dbl(-d)),
        V::UInt(_) => Exp::Fail,
        V::Bool(_) => Exp::Unspec,
        _ => Exp::Fail,
    }
}

pub fn truthy(v: &V) -> bool {
    match v {
        V::Int(i) => *i != 0,
        V::UInt(u) => *u != 0,
        V::Dbl(d) => *d != 0.0,
        V::Bool(b) => *b,
        V::Str(s) => !s.is_empty(),
        V::Bytes(b) => !b.is_empty(),
        V::List(l) => !l.is_empty(),
        V::Map(m) => !m.is_empty(),
        V::Null => false,
        V::Type(_) => true,
        V::Ts(_) => true,
        V::Dur(_) => true,
    }
}

#[derive(Clone, Copy, Debug, PartialEq, Eq)]
pub enum CmpRes {
    Ord(Ordering),
    /// comparable types but no order (NaN involved)
    Unordered,
    /// unrelated types: the comparison must fail
    Incomparable,
    /// the property does not say (bool against a number)
    Unspec,
}

/// the one reference order behind < <= > >=, sort, min, max
pub fn cmp(a: &V, b: &V) -> CmpRes {
    use V::*;
    match (a, b) {
        (Int(_) | UInt(_), Int(_) | UInt(_)) => {
            CmpRes::Ord(as_int128(a).unwrap().cmp(&as_int128(b).unwrap()))
        }
        (Int(_) | UInt(_) | Dbl(_), Int(_) | UInt(_) | Dbl(_)) => {
            match as_f64(a).unwrap().partial_cmp(&as_f64(b).unwrap()) {
                Some(o) => CmpRes::Ord(o),
                None => CmpRes::Unordered,
            }
        }
        (Bool(x), Bool(y)) => CmpRes::Ord(x.cmp(y)),
        (Bool(_), Int(_) | UInt(_) | Dbl(_)) | (Int(_) | UInt(_) | Dbl(_), Bool(_)) => CmpRes::Unspec,
        (Str(x), Str(y)) => CmpRes::Ord(x.as_bytes().cmp(y.as_bytes())),
        (Bytes(x), Bytes(y)) => CmpRes::Ord(x.cmp(y)),
        (Ts(x), Ts(y)) => CmpRes::Ord(x.cmp(y)),
        (Dur(x), Dur(y)) => CmpRes::Ord(x.cmp(y)),
        _ => CmpRes::Incomparable,
    }
}

/// reference equality where the property fixes it; None = not fixed
pub fn eq(a: &V, b: &V) -> Option<bool> {
    use V::*;
    match (a, b) {
        (Int(_) | UInt(_), Int(_) | UInt(_)) => Some(as_int128(a) == as_int128(b)),
        (Int(_) | UInt(_) | Dbl(_), Int(_) | UInt(_) | Dbl(_)) => Some(as_f64(a).unwrap() == as_f64(b).unwrap()),
        (Bool(x), Bool(y)) => Some(x == y),
        (Str(x), Str(y)) => Some(x == y),
        (Bytes(x), Bytes(y)) => Some(x == y),
        (Null, Null) => Some(true),
        (Type(x), Type(y)) => Some(x == y),
        (Ts(x), Ts(y)) => Some(x == y),
        (Dur(x), Dur(y)) => Some(x == y),
        (List(x), List(y)) => {
            if x.len() != y.len() {
                return Some(false);
            }
            let mut all = Some(true);
            for (p, q) in x.iter().zip(y) {
                match eq(p, q) {
                    Some(true) => {}
                    Some(false) => return Some(false),
                    None => all = None,
                }
            }
            all
        }
        (Map(x), Map(y)) => {
            if x.len() != y.len() || !x.keys().eq(y.keys()) {
                return Some(false);
            }
            let mut all = Some(true);
            for (k, p) in x {
                match eq(p, &y[k]) {
                    Some(true) => {}
                    Some(false) => return Some(false),
                    None => all = None,
                }
            }
            all
        }
        _ => None,
    }
}
