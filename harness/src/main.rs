mod astcanon;
mod engine;
mod grids;
mod isolate;
mod props;
mod real;
mod refmodel;
mod val;

use engine::{Acc, Tier};

fn usage() -> ! {
    eprintln!("usage: rscel-mc <ID> --tier quick|thorough [--hash-out FILE] | <ID> --replay FILE");
    std::process::exit(2);
}

fn replay(id: &str, path: &str) -> i32 {
    let text = match std::fs::read_to_string(path) {
        Ok(t) => t,
        Err(e) => {
            eprintln!("cannot read {}: {}", path, e);
            return 2;
        }
    };
    let j: serde_json::Value = serde_json::from_str(&text).expect("replay json");
    let tier = if j["tier"] == "thorough" { Tier::Thorough } else { Tier::Quick };
    let family = j["family"].as_str().unwrap_or("").to_string();
    let index = j["index"].as_u64().unwrap_or(0);
    let fams = match props::replay_families(id, tier) {
        Some(f) => f,
        None => {
            eprintln!("no index-addressed families for {}", id);
            return 2;
        }
    };
    let fam = match fams.iter().find(|f| f.name == family) {
        Some(f) => f,
        None => {
            eprintln!("family {} not found", family);
            return 2;
        }
    };
    if index >= fam.size {
        eprintln!("replay index {} out of range for family {} (size {})", index, family, fam.size);
        return 2;
    }
    let mut acc = Acc::default();
    acc.family = family.clone();
    acc.index = index;
    (fam.run)(index, &mut acc);
    // determinism: the same case must give the same verdict twice
    let mut acc2 = Acc::default();
    acc2.family = family.clone();
    acc2.index = index;
    (fam.run)(index, &mut acc2);
    let k1: Vec<_> = acc.violations.keys().cloned().collect();
    let k2: Vec<_> = acc2.violations.keys().cloned().collect();
    if k1 != k2 {
        eprintln!("MACHINERY ERROR: replay is not deterministic: {:?} vs {:?}", k1, k2);
        return 2;
    }
    if acc.violations.is_empty() {
        println!("replay {} {}[{}]: property held on this case", id, family, index);
        return 0;
    }
    for (k, (_, vs)) in &acc.violations {
        for v in vs {
            println!(
                "replay {} {}[{}]: key={} case={} expected={} observed={}",
                id, family, index, k, v.case, v.expected, v.observed
            );
        }
    }
    println!("VIOLATION property={} replay={}", id, path);
    1
}

fn main() {
    let args: Vec<String> = std::env::args().skip(1).collect();
    if args.is_empty() {
        usage();
    }
    real::install_panic_hook();
    let id = args[0].clone();
    if id == "EVAL" {
        // ad-hoc probe: rscel-mc EVAL '<source>' ...
        // arguments of the form @name=<cel expr> bind name to the value of the expression
        let mut b = rscel::BindContext::new();
        for a in &args[1..] {
            if let Some(rest) = a.strip_prefix('@') {
                if let Some((n, e)) = rest.split_once('=') {
                    if let real::Outcome::Value(v) = real::eval(e, &[]) {
                        b.bind_param(n, v);
                    } else {
                        println!("cannot evaluate binding {}", a);
                    }
                }
            }
        }
        // arguments of the form %name=<source> store a program under that name
        let progs: Vec<(&str, &str)> = args[1..].iter().filter_map(|a| a.strip_prefix('%').and_then(|r| r.split_once('='))).collect();
        for src in args[1..].iter().filter(|a| !a.starts_with('@') && !a.starts_with('%')) {
            if progs.is_empty() {
                println!("{}  =>  {}", src, real::eval_with(src, &b).show());
            } else {
                let mut ctx = rscel::CelContext::new();
                for (n, s) in &progs {
                    if let Err(e) = ctx.add_program_str(n, s) {
                        println!("program {} does not compile: {}", n, e);
                    }
                }
                if std::env::var("VERIF_EVAL_BYTECODE").is_ok() {
                    for (n, _) in &progs {
                        println!("  {} := {:?}", n, ctx.get_program(n).map(|p| format!("{:?}", p.bytecode())));
                    }
                }
                let t0 = std::time::Instant::now();
                let out = match ctx.add_program_str("main", src) {
                    Ok(()) => real::exec_in(&mut ctx, "main", &b).show(),
                    Err(e) => format!("does not compile: {}", e),
                };
                println!("{}  =>  {}  ({:.2}s)", src, out, t0.elapsed().as_secs_f64());
            }
        }
        return;
    }
    let mut tier = match std::env::var("VERIF_TIER").ok().as_deref() {
        Some("thorough") => Tier::Thorough,
        _ => Tier::Quick,
    };
    let mut hash_out = None;
    let mut i = 1;
    while i < args.len() {
        match args[i].as_str() {
            "--tier" => {
                i += 1;
                tier = match args.get(i).map(|s| s.as_str()) {
                    Some("quick") => Tier::Quick,
                    Some("thorough") => Tier::Thorough,
                    _ => usage(),
                };
            }
            "--hash-out" => {
                i += 1;
                hash_out = args.get(i).cloned();
            }
            "--ladder-worker" => {
                let construct = args.get(i + 1).cloned().unwrap_or_else(|| usage());
                let depth: usize = args.get(i + 2).and_then(|s| s.parse().ok()).unwrap_or_else(|| usage());
                let stack = args.get(i + 3).and_then(|s| s.parse::<usize>().ok());
                std::process::exit(props::c01::ladder_worker(&construct, depth, stack));
            }
            "--worker" => {
                // child-process worker of a property that isolates abort-prone cases
                let rest: Vec<String> = args[i + 1..].to_vec();
                std::process::exit(match id.as_str() {
                    "C12" => props::c12::worker(&rest),
                    _ => 2,
                });
            }
            "--replay" => {
                i += 1;
                let p = args.get(i).cloned().unwrap_or_else(|| usage());
                std::process::exit(replay(&id, &p));
            }
            _ => usage(),
        }
        i += 1;
    }
    let code = props::run(&id, tier, hash_out);
    std::process::exit(code);
}
