//! Canonical s-expression view of the implementation's public syntax tree
//! (`Program::ast()`), shared by C02 (grouping), C18 (spans) and C20 (SQL).
//!
//! Single-child wrapper levels and `Parens` are dropped; call arguments are put in
//! source order (the parser stores them reversed, an internal choice).
use rscel::*;

#[derive(Clone, Debug, PartialEq, Eq, Hash)]
pub enum S {
    Atom(String),
    Node(String, Vec<S>),
}

impl S {
    pub fn atom(s: &str) -> S {
        S::Atom(s.to_string())
    }
    pub fn node(op: &str, kids: Vec<S>) -> S {
        S::Node(op.to_string(), kids)
    }
    pub fn show(&self) -> String {
        match self {
            S::Atom(a) => a.clone(),
            S::Node(op, kids) => format!("({} {})", op, kids.iter().map(|k| k.show()).collect::<Vec<_>>().join(" ")),
        }
    }
    pub fn size(&self) -> usize {
        match self {
            S::Atom(_) => 1,
            S::Node(_, k) => 1 + k.iter().map(|x| x.size()).sum::<usize>(),
        }
    }
}

pub fn expr(e: &AstNode<Expr>) -> S {
    match e.node() {
        Expr::Unary(or) => cond_or(or),
        Expr::Ternary { condition, true_clause, false_clause } => S::node("?:", vec![cond_or(condition), cond_or(true_clause), expr(false_clause)]),
        Expr::Match { condition, cases } => {
            let mut kids = vec![expr(condition)];
            for c in cases {
                let pat = match c.node().pattern.node() {
                    MatchPattern::Any(_) => S::atom("_"),
                    MatchPattern::Type(t) => S::Atom(format!("type:{:?}", t.node())),
                    MatchPattern::Cmp { op, or } => S::node(&format!("cmp:{:?}", op.node()), vec![cond_or(or)]),
                };
                kids.push(S::node("case", vec![pat, expr(&c.node().expr)]));
            }
            S::node("match", kids)
        }
    }
}

pub fn cond_or(e: &AstNode<ConditionalOr>) -> S {
    match e.node() {
        ConditionalOr::Unary(a) => cond_and(a),
        ConditionalOr::Binary { lhs, rhs } => S::node("||", vec![cond_or(lhs), cond_and(rhs)]),
    }
}

pub fn cond_and(e: &AstNode<ConditionalAnd>) -> S {
    match e.node() {
        ConditionalAnd::Unary(a) => relation(a),
        ConditionalAnd::Binary { lhs, rhs } => S::node("&&", vec![cond_and(lhs), relation(rhs)]),
    }
}

pub fn relation(e: &AstNode<Relation>) -> S {
    match e.node() {
        Relation::Unary(a) => addition(a),
        Relation::Binary { lhs, op, rhs } => {
            let o = match op {
                Relop::Le => "<=",
                Relop::Lt => "<",
                Relop::Ge => ">=",
                Relop::Gt => ">",
                Relop::Eq => "==",
                Relop::Ne => "!=",
                Relop::In => "in",
            };
            S::node(o, vec![relation(lhs), addition(rhs)])
        }
    }
}

pub fn addition(e: &AstNode<Addition>) -> S {
    match e.node() {
        Addition::Unary(a) => multiplication(a),
        Addition::Binary { lhs, op, rhs } => {
            let o = match op {
                AddOp::Add => "+",
                AddOp::Sub => "-",
            };
            S::node(o, vec![addition(lhs), multiplication(rhs)])
        }
    }
}

pub fn multiplication(e: &AstNode<Multiplication>) -> S {
    match e.node() {
        Multiplication::Unary(a) => unary(a),
        Multiplication::Binary { lhs, op, rhs } => {
            let o = match op {
                MultOp::Mult => "*",
                MultOp::Div => "/",
                MultOp::Mod => "%",
            };
            S::node(o, vec![multiplication(lhs), unary(rhs)])
        }
    }
}

fn not_len(n: &AstNode<NotList>) -> usize {
    match n.node() {
        NotList::EmptyList => 0,
        NotList::List { tail } => 1 + not_len(tail),
    }
}
fn neg_len(n: &AstNode<NegList>) -> usize {
    match n.node() {
        NegList::EmptyList => 0,
        NegList::List { tail } => 1 + neg_len(tail),
    }
}

pub fn unary(e: &AstNode<Unary>) -> S {
    match e.node() {
        Unary::Member(m) => member(m),
        Unary::NotMember { nots, member: m } => {
            let mut s = member(m);
            for _ in 0..not_len(nots) {
                s = S::node("!", vec![s]);
            }
            s
        }
        Unary::NegMember { negs, member: m } => {
            let mut s = member(m);
            for _ in 0..neg_len(negs) {
                s = S::node("neg", vec![s]);
            }
            s
        }
    }
}

pub fn member(e: &AstNode<Member>) -> S {
    let mut s = primary(&e.node().primary);
    for mp in &e.node().member {
        s = match mp.node() {
            MemberPrime::MemberAccess { ident } => S::node(".", vec![s, S::atom(&ident.node().0)]),
            MemberPrime::Call { call } => {
                let mut args: Vec<&AstNode<Expr>> = call.node().exprs.iter().collect();
                // source order
                args.sort_by_key(|a| (a.start().line(), a.start().col()));
                let mut kids = vec![s];
                kids.extend(args.into_iter().map(expr));
                S::node("call", kids)
            }
            MemberPrime::ArrayAccess { access } => S::node("[]", vec![s, expr(access)]),
            MemberPrime::Empty => s,
        };
    }
    s
}

pub fn primary(e: &AstNode<Primary>) -> S {
    match e.node() {
        Primary::Type => S::atom("<type>"),
        Primary::Ident(i) => S::atom(&i.0),
        Primary::Parens(inner) => expr(inner),
        Primary::ListConstruction(l) => S::node("list", l.node().exprs.iter().map(expr).collect()),
        Primary::ObjectInit(o) => {
            let mut kids = Vec::new();
            for init in &o.node().inits {
                kids.push(expr(&init.node().key));
                kids.push(expr(&init.node().value));
            }
            S::node("map", kids)
        }
        Primary::Literal(l) => S::Atom(match l {
            LiteralsAndKeywords::NullLit => "null".to_string(),
            LiteralsAndKeywords::IntegerLit(i) => format!("{}", i),
            LiteralsAndKeywords::UnsignedLit(u) => format!("{}u", u),
            LiteralsAndKeywords::FloatingLit(f) => format!("{:?}f", f),
            LiteralsAndKeywords::StringLit(s) => format!("{:?}", s),
            LiteralsAndKeywords::ByteStringLit(b) => format!("b{:?}", b),
            LiteralsAndKeywords::BooleanLit(b) => format!("{}", b),
            LiteralsAndKeywords::FStringList(segs) => format!("f{:?}", segs),
            other => format!("{:?}", other),
        }),
    }
}
