//! Driver for the implementation: public API only, every call under catch_unwind.
use crate::val::V;
use rscel::{BindContext, CelContext, CelError, CelValue, Program};
use std::cell::RefCell;
use std::panic::{catch_unwind, AssertUnwindSafe};

thread_local! {
    static LAST_PANIC: RefCell<Option<String>> = const { RefCell::new(None) };
    static IN_GUARD: std::cell::Cell<u32> = const { std::cell::Cell::new(0) };
}

/// catch_unwind that marks the region so the panic hook stays silent inside it
fn guard<T>(f: impl FnOnce() -> T) -> std::thread::Result<T> {
    IN_GUARD.with(|g| g.set(g.get() + 1));
    let r = catch_unwind(AssertUnwindSafe(f));
    IN_GUARD.with(|g| g.set(g.get() - 1));
    r
}

/// Install a silent panic hook that records message and location per thread.
pub fn install_panic_hook() {
    std::panic::set_hook(Box::new(|info| {
        let msg = if let Some(s) = info.payload().downcast_ref::<&str>() {
            s.to_string()
        } else if let Some(s) = info.payload().downcast_ref::<String>() {
            s.clone()
        } else {
            "<non-string panic>".to_string()
        };
        let loc = info
            .location()
            .map(|l| format!("{}:{}", l.file(), l.line()))
            .unwrap_or_default();
        if IN_GUARD.with(|g| g.get()) == 0 {
            // a panic of the harness itself: machinery error, must be visible
            eprintln!("MACHINERY ERROR: harness panicked: {} @ {}", msg, loc);
        }
        LAST_PANIC.with(|p| *p.borrow_mut() = Some(format!("{} @ {}", msg, loc)));
    }));
}

fn take_panic() -> String {
    LAST_PANIC
        .with(|p| p.borrow_mut().take())
        .unwrap_or_else(|| "<panic>".to_string())
}

#[derive(Clone, Debug, PartialEq, Eq, Hash, PartialOrd, Ord)]
pub enum ErrKind {
    Misc,
    Syntax,
    Value,
    Argument,
    InvalidOp,
    Runtime,
    Binding,
    Attribute,
    DivideByZero,
    Internal,
}

impl ErrKind {
    pub fn of(e: &CelError) -> ErrKind {
        match e {
            CelError::Misc(_) => ErrKind::Misc,
            CelError::Syntax(_) => ErrKind::Syntax,
            CelError::Value(_) => ErrKind::Value,
            CelError::Argument(_) => ErrKind::Argument,
            CelError::InvalidOp(_) => ErrKind::InvalidOp,
            CelError::Runtime(_) => ErrKind::Runtime,
            CelError::Binding { .. } => ErrKind::Binding,
            CelError::Attribute { .. } => ErrKind::Attribute,
            CelError::DivideByZero => ErrKind::DivideByZero,
            CelError::Internal(_) => ErrKind::Internal,
        }
    }
    /// "absent data" in the sense of C08
    pub fn is_absent(&self) -> bool {
        matches!(self, ErrKind::Binding | ErrKind::Attribute)
    }
}

#[derive(Clone, Debug)]
pub enum Outcome {
    Value(CelValue),
    Fail(ErrKind, String),
    CompileFail { line: usize, col: usize, msg: String },
    /// compile returned a non-syntax error
    CompileErr(ErrKind, String),
    Panic { stage: &'static str, msg: String },
}

impl Outcome {
    pub fn is_value(&self) -> bool {
        matches!(self, Outcome::Value(_))
    }
    pub fn is_fail(&self) -> bool {
        matches!(self, Outcome::Fail(..))
    }
    pub fn is_panic(&self) -> bool {
        matches!(self, Outcome::Panic { .. })
    }
    pub fn is_compile_fail(&self) -> bool {
        matches!(self, Outcome::CompileFail { .. } | Outcome::CompileErr(..))
    }
    pub fn value(&self) -> Option<V> {
        match self {
            Outcome::Value(v) => V::from_cel(v),
            _ => None,
        }
    }
    pub fn fail_kind(&self) -> Option<&ErrKind> {
        match self {
            Outcome::Fail(k, _) => Some(k),
            _ => None,
        }
    }
    /// coarse class used for distinct-outcome counting
    pub fn class(&self) -> String {
        match self {
            Outcome::Value(v) => format!("value:{}", cel_type_name(v)),
            Outcome::Fail(k, _) => format!("fail:{:?}", k),
            Outcome::CompileFail { .. } => "compilefail".to_string(),
            Outcome::CompileErr(k, _) => format!("compileerr:{:?}", k),
            Outcome::Panic { stage, .. } => format!("panic:{}", stage),
        }
    }
    pub fn show(&self) -> String {
        match self {
            Outcome::Value(v) => match V::from_cel(v) {
                Some(v) => format!("Value({})", v.show()),
                None => format!("Value(raw {:?})", v),
            },
            Outcome::Fail(k, m) => format!("Fail({:?}: {})", k, m),
            Outcome::CompileFail { line, col, msg } => {
                format!("CompileFail(line {}, col {}: {})", line, col, msg)
            }
            Outcome::CompileErr(k, m) => format!("CompileErr({:?}: {})", k, m),
            Outcome::Panic { stage, msg } => format!("Panic(at {}: {})", stage, msg),
        }
    }
    /// Two outcomes agree: same value (bit for bit) or same error kind.
    pub fn agrees(&self, o: &Outcome) -> bool {
        match (self, o) {
            (Outcome::Value(a), Outcome::Value(b)) => cel_same(a, b),
            (Outcome::Fail(a, _), Outcome::Fail(b, _)) => a == b,
            (Outcome::CompileFail { .. }, Outcome::CompileFail { .. }) => true,
            (Outcome::CompileErr(a, _), Outcome::CompileErr(b, _)) => a == b,
            _ => false,
        }
    }
    /// Same value, or both fail (any kind).
    pub fn agrees_class(&self, o: &Outcome) -> bool {
        match (self, o) {
            (Outcome::Value(a), Outcome::Value(b)) => cel_same(a, b),
            (Outcome::Fail(..), Outcome::Fail(..)) => true,
            (a, b) if a.is_compile_fail() && b.is_compile_fail() => true,
            // a panic is reported on its own; two panics are not a second finding
            (Outcome::Panic { .. }, Outcome::Panic { .. }) => true,
            _ => false,
        }
    }
}

pub fn cel_type_name(v: &CelValue) -> &'static str {
    match v {
        CelValue::Int(_) => "int",
        CelValue::UInt(_) => "uint",
        CelValue::Float(_) => "float",
        CelValue::Bool(_) => "bool",
        CelValue::String(_) => "string",
        CelValue::Bytes(_) => "bytes",
        CelValue::List(_) => "list",
        CelValue::Map(_) => "map",
        CelValue::Null => "null",
        CelValue::Ident(_) => "ident",
        CelValue::Type(_) => "type",
        CelValue::TimeStamp(_) => "timestamp",
        CelValue::Duration(_) => "duration",
        CelValue::ByteCode(_) => "bytecode",
        CelValue::Err(_) => "err",
        _ => "other",
    }
}

/// structural, bit-for-bit sameness of two implementation values (errors inside
/// collections compare by kind)
pub fn cel_same(a: &CelValue, b: &CelValue) -> bool {
    match (a, b) {
        (CelValue::Float(x), CelValue::Float(y)) => {
            x.to_bits() == y.to_bits() || (x.is_nan() && y.is_nan())
        }
        (CelValue::List(x), CelValue::List(y)) => {
            x.len() == y.len() && x.iter().zip(y).all(|(p, q)| cel_same(p, q))
        }
        (CelValue::Map(x), CelValue::Map(y)) => {
            x.len() == y.len()
                && x.iter()
                    .all(|(k, v)| y.get(k).map(|w| cel_same(v, w)).unwrap_or(false))
        }
        (CelValue::Err(x), CelValue::Err(y)) => ErrKind::of(x) == ErrKind::of(y),
        (CelValue::Int(x), CelValue::Int(y)) => x == y,
        (CelValue::UInt(x), CelValue::UInt(y)) => x == y,
        (CelValue::Bool(x), CelValue::Bool(y)) => x == y,
        (CelValue::String(x), CelValue::String(y)) => x == y,
        (CelValue::Bytes(x), CelValue::Bytes(y)) => x == y,
        (CelValue::Null, CelValue::Null) => true,
        (CelValue::Type(x), CelValue::Type(y)) => x == y,
        (CelValue::Ident(x), CelValue::Ident(y)) => x == y,
        (CelValue::TimeStamp(x), CelValue::TimeStamp(y)) => x == y,
        (CelValue::Duration(x), CelValue::Duration(y)) => x == y,
        (CelValue::ByteCode(x), CelValue::ByteCode(y)) => {
            let (a, b): (Vec<&rscel::ByteCode>, Vec<&rscel::ByteCode>) = (x.iter().collect(), y.iter().collect());
            a.len() == b.len() && a.iter().zip(b.iter()).all(|(p, q)| instr_same(p, q))
        }
        _ => false,
    }
}

/// sameness of two instructions: pushed constants by `cel_same` (maps independent of their
/// iteration order, NaN same as NaN), everything else by its listing
pub fn instr_same(a: &rscel::ByteCode, b: &rscel::ByteCode) -> bool {
    match (a, b) {
        (rscel::ByteCode::Push(x), rscel::ByteCode::Push(y)) => cel_same(x, y),
        (rscel::ByteCode::Push(_), _) | (_, rscel::ByteCode::Push(_)) => false,
        _ => format!("{:?}", a) == format!("{:?}", b),
    }
}

/// sameness of two programs' code
pub fn bytecode_same(a: &Program, b: &Program) -> bool {
    let (x, y): (Vec<&rscel::ByteCode>, Vec<&rscel::ByteCode>) = (a.bytecode().iter().collect(), b.bytecode().iter().collect());
    x.len() == y.len() && x.iter().zip(y.iter()).all(|(p, q)| instr_same(p, q))
}

pub fn compile(src: &str) -> Result<Program, Outcome> {
    match guard(|| Program::from_source(src)) {
        Ok(Ok(p)) => Ok(p),
        Ok(Err(CelError::Syntax(e))) => {
            let loc = e.loc();
            Err(Outcome::CompileFail {
                line: loc.line(),
                col: loc.col(),
                msg: format!("{}", e),
            })
        }
        Ok(Err(e)) => Err(Outcome::CompileErr(ErrKind::of(&e), format!("{}", e))),
        Err(_) => Err(Outcome::Panic {
            stage: "compile",
            msg: take_panic(),
        }),
    }
}

pub fn exec_prog(prog: Program, b: &BindContext) -> Outcome {
    let mut ctx = CelContext::new();
    ctx.add_program("main", prog);
    exec_in(&mut ctx, "main", b)
}

pub fn exec_in(ctx: &mut CelContext, name: &str, b: &BindContext) -> Outcome {
    match guard(|| ctx.exec(name, b)) {
        Ok(Ok(v)) => Outcome::Value(v),
        Ok(Err(e)) => Outcome::Fail(ErrKind::of(&e), format!("{}", e)),
        Err(_) => Outcome::Panic {
            stage: "exec",
            msg: take_panic(),
        },
    }
}

pub fn bindings<'a>(binds: &[(&str, V)]) -> BindContext<'a> {
    let mut b = BindContext::new();
    for (k, v) in binds {
        b.bind_param(k, v.to_cel());
    }
    b
}

/// compile + exec through the public API
pub fn eval(src: &str, binds: &[(&str, V)]) -> Outcome {
    let prog = match compile(src) {
        Ok(p) => p,
        Err(o) => return o,
    };
    let b = bindings(binds);
    exec_prog(prog, &b)
}

pub fn eval_with(src: &str, b: &BindContext) -> Outcome {
    let prog = match compile(src) {
        Ok(p) => p,
        Err(o) => return o,
    };
    exec_prog(prog, b)
}

/// run any closure that touches rscel under catch_unwind
pub fn guarded<T>(stage: &'static str, f: impl FnOnce() -> T) -> Result<T, Outcome> {
    match guard(f) {
        Ok(v) => Ok(v),
        Err(_) => Err(Outcome::Panic {
            stage,
            msg: take_panic(),
        }),
    }
}
