//! Reference value type, independent of rscel's `CelValue`.
use rscel::CelValue;
use std::collections::{BTreeMap, HashMap};

pub const NS: i128 = 1_000_000_000;

#[derive(Clone, Debug)]
pub enum V {
    Int(i64),
    UInt(u64),
    Dbl(f64),
    Bool(bool),
    Str(String),
    Bytes(Vec<u8>),
    List(Vec<V>),
    Map(BTreeMap<String, V>),
    Null,
    Type(String),
    /// nanoseconds since the Unix epoch
    Ts(i128),
    /// nanoseconds
    Dur(i128),
}

impl V {
    pub fn s(x: &str) -> V {
        V::Str(x.to_string())
    }
    pub fn list(xs: &[V]) -> V {
        V::List(xs.to_vec())
    }
    pub fn map(kvs: &[(&str, V)]) -> V {
        V::Map(kvs.iter().map(|(k, v)| (k.to_string(), v.clone())).collect())
    }

    pub fn type_name(&self) -> &'static str {
        match self {
            V::Int(_) => "int",
            V::UInt(_) => "uint",
            V::Dbl(_) => "float",
            V::Bool(_) => "bool",
            V::Str(_) => "string",
            V::Bytes(_) => "bytes",
            V::List(_) => "list",
            V::Map(_) => "map",
            V::Null => "null",
            V::Type(_) => "type",
            V::Ts(_) => "timestamp",
            V::Dur(_) => "duration",
        }
    }

    /// bit-for-bit sameness (NaN same as NaN, -0.0 differs from 0.0)
    pub fn same(&self, o: &V) -> bool {
        match (self, o) {
            (V::Int(a), V::Int(b)) => a == b,
            (V::UInt(a), V::UInt(b)) => a == b,
            (V::Dbl(a), V::Dbl(b)) => a.to_bits() == b.to_bits() || (a.is_nan() && b.is_nan()),
            (V::Bool(a), V::Bool(b)) => a == b,
            (V::Str(a), V::Str(b)) => a == b,
            (V::Bytes(a), V::Bytes(b)) => a == b,
            (V::List(a), V::List(b)) => a.len() == b.len() && a.iter().zip(b).all(|(x, y)| x.same(y)),
            (V::Map(a), V::Map(b)) => {
                a.len() == b.len()
                    && a.iter().zip(b).all(|((k1, v1), (k2, v2))| k1 == k2 && v1.same(v2))
            }
            (V::Null, V::Null) => true,
            (V::Type(a), V::Type(b)) => a == b,
            (V::Ts(a), V::Ts(b)) => a == b,
            (V::Dur(a), V::Dur(b)) => a == b,
            _ => false,
        }
    }

    pub fn to_cel(&self) -> CelValue {
        match self {
            V::Int(i) => CelValue::Int(*i),
            V::UInt(u) => CelValue::UInt(*u),
            V::Dbl(d) => CelValue::Float(*d),
            V::Bool(b) => CelValue::Bool(*b),
            V::Str(s) => CelValue::String(s.clone()),
            V::Bytes(b) => CelValue::from_bytes(b.clone()),
            V::List(l) => CelValue::List(l.iter().map(|x| x.to_cel()).collect()),
            V::Map(m) => {
                let mut h = HashMap::new();
                for (k, v) in m {
                    h.insert(k.clone(), v.to_cel());
                }
                CelValue::Map(h)
            }
            V::Null => CelValue::Null,
            V::Type(t) => CelValue::Type(t.clone()),
            V::Ts(ns) => {
                let secs = ns.div_euclid(NS) as i64;
                let nanos = ns.rem_euclid(NS) as u32;
                CelValue::TimeStamp(
                    chrono::DateTime::from_timestamp(secs, nanos).expect("ts in chrono range"),
                )
            }
            V::Dur(ns) => {
                let secs = ns.div_euclid(NS) as i64;
                let nanos = ns.rem_euclid(NS) as u32;
                CelValue::Duration(chrono::Duration::new(secs, nanos).expect("dur in chrono range"))
            }
        }
    }

    pub fn from_cel(c: &CelValue) -> Option<V> {
        Some(match c {
            CelValue::Int(i) => V::Int(*i),
            CelValue::UInt(u) => V::UInt(*u),
            CelValue::Float(f) => V::Dbl(*f),
            CelValue::Bool(b) => V::Bool(*b),
            CelValue::String(s) => V::Str(s.clone()),
            CelValue::Bytes(b) => V::Bytes(b.clone().into_vec()),
            CelValue::List(l) => {
                let mut out = Vec::new();
                for x in l {
                    out.push(V::from_cel(x)?);
                }
                V::List(out)
            }
            CelValue::Map(m) => {
                let mut out = BTreeMap::new();
                for (k, v) in m {
                    out.insert(k.clone(), V::from_cel(v)?);
                }
                V::Map(out)
            }
            CelValue::Null => V::Null,
            CelValue::Type(t) => V::Type(t.clone()),
            CelValue::TimeStamp(t) => {
                V::Ts(t.timestamp() as i128 * NS + t.timestamp_subsec_nanos() as i128)
            }
            CelValue::Duration(d) => {
                V::Dur(d.num_seconds() as i128 * NS + d.subsec_nanos() as i128)
            }
            _ => return None,
        })
    }

    /// CEL source text that denotes this value using only literals and
    /// constant-foldable constructor calls. None when there is no such text.
    pub fn lit(&self) -> Option<String> {
        Some(match self {
            V::Int(i) => {
                if *i == i64::MIN {
                    // no literal spelling independent of C13; use an expression
                    "(-9223372036854775807 - 1)".to_string()
                } else if *i < 0 {
                    format!("({})", i)
                } else {
                    format!("{}", i)
                }
            }
            V::UInt(u) => format!("{}u", u),
            V::Dbl(d) => {
                if d.is_nan() {
                    "(0.0 / 0.0)".to_string()
                } else if d.is_infinite() {
                    if *d > 0.0 {
                        "(1.0 / 0.0)".to_string()
                    } else {
                        "(-1.0 / 0.0)".to_string()
                    }
                } else {
                    // plain decimal expansion, always with a '.'; exact round trip
                    let mut s = format!("{}", d.abs());
                    if !s.contains('.') {
                        s.push_str(".0");
                    }
                    if d.is_sign_negative() {
                        format!("(-{})", s)
                    } else {
                        s
                    }
                }
            }
            V::Bool(b) => format!("{}", b),
            V::Str(s) => str_lit(s),
            V::Bytes(b) => {
                let mut out = String::from("b'");
                for x in b {
                    out.push_str(&format!("\\x{:02x}", x));
                }
                out.push('\'');
                out
            }
            V::List(l) => {
                let mut parts = Vec::new();
                for x in l {
                    parts.push(x.lit()?);
                }
                format!("[{}]", parts.join(", "))
            }
            V::Map(m) => {
                let mut parts = Vec::new();
                for (k, v) in m {
                    parts.push(format!("{}: {}", str_lit(k), v.lit()?));
                }
                format!("{{{}}}", parts.join(", "))
            }
            V::Null => "null".to_string(),
            V::Type(t) => t.clone(),
            V::Ts(_) | V::Dur(_) => return None,
        })
    }

    /// like `lit`, plus constant-foldable constructor calls for timestamps and durations
    pub fn src(&self) -> Option<String> {
        match self {
            V::Ts(ns) => {
                let secs = ns.div_euclid(NS);
                let nanos = ns.rem_euclid(NS);
                let base = if secs < 0 { format!("timestamp(({}))", secs) } else { format!("timestamp({})", secs) };
                Some(if nanos == 0 { base } else { format!("({} + duration(0, {}))", base, nanos) })
            }
            V::Dur(ns) => {
                let secs = ns.div_euclid(NS);
                let nanos = ns.rem_euclid(NS);
                Some(if secs < 0 { format!("duration(({}), {})", secs, nanos) } else { format!("duration({}, {})", secs, nanos) })
            }
            V::List(l) => {
                let mut parts = Vec::new();
                for x in l {
                    parts.push(x.src()?);
                }
                Some(format!("[{}]", parts.join(", ")))
            }
            V::Map(m) => {
                let mut parts = Vec::new();
                for (k, v) in m {
                    parts.push(format!("{}: {}", str_lit(k), v.src()?));
                }
                Some(format!("{{{}}}", parts.join(", ")))
            }
            other => other.lit(),
        }
    }

    pub fn show(&self) -> String {
        match self {
            V::Dbl(d) => format!("Dbl({:?}/0x{:016x})", d, d.to_bits()),
            other => format!("{:?}", other),
        }
    }
}

pub fn str_lit(s: &str) -> String {
    let mut out = String::from("'");
    for c in s.chars() {
        match c {
            '\'' => out.push_str("\\'"),
            '\\' => out.push_str("\\\\"),
            '\n' => out.push_str("\\n"),
            '\t' => out.push_str("\\t"),
            '\r' => out.push_str("\\r"),
            '\0' => out.push_str("\\x00"),
            c => out.push(c),
        }
    }
    out.push('\'');
    out
}
