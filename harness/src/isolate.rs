//! Child-process isolation for cases that can abort the process (stack
//! overflow, allocation failure) or hang. One case per child.
use std::io::Read;
use std::process::{Command, Stdio};
use std::time::{Duration, Instant};

#[derive(Clone, Debug, PartialEq, Eq)]
pub enum ChildResult {
    /// the child finished; its stdout (one line: outcome class and text)
    Done(String),
    /// killed by a signal (stack overflow = SIGSEGV/SIGABRT)
    Abort(i32),
    /// exit code other than 0
    Exit(i32),
    Hang,
    SpawnError(String),
}

pub fn self_bin(profile_env: &str) -> Option<String> {
    std::env::var(profile_env).ok().filter(|s| !s.is_empty())
}

/// run `bin args...`, wait at most `timeout`
pub fn run_child(bin: &str, args: &[String], timeout: Duration) -> ChildResult {
    let mut child = match Command::new(bin)
        .args(args)
        .stdin(Stdio::null())
        .stdout(Stdio::piped())
        .stderr(Stdio::null())
        .spawn()
    {
        Ok(c) => c,
        Err(e) => return ChildResult::SpawnError(format!("{}", e)),
    };
    let start = Instant::now();
    loop {
        match child.try_wait() {
            Ok(Some(status)) => {
                let mut out = String::new();
                if let Some(mut so) = child.stdout.take() {
                    let _ = so.read_to_string(&mut out);
                }
                use std::os::unix::process::ExitStatusExt;
                if let Some(sig) = status.signal() {
                    return ChildResult::Abort(sig);
                }
                return match status.code() {
                    Some(0) => ChildResult::Done(out.trim().to_string()),
                    Some(c) => ChildResult::Exit(c),
                    None => ChildResult::Abort(-1),
                };
            }
            Ok(None) => {
                if start.elapsed() > timeout {
                    let _ = child.kill();
                    let _ = child.wait();
                    return ChildResult::Hang;
                }
                std::thread::sleep(Duration::from_millis(2));
            }
            Err(e) => return ChildResult::SpawnError(format!("{}", e)),
        }
    }
}

/// in the child: cap the address space so a runaway allocation fails instead of
/// taking the machine down
pub fn limit_address_space(bytes: u64) {
    unsafe {
        let lim = libc::rlimit {
            rlim_cur: bytes,
            rlim_max: bytes,
        };
        libc::setrlimit(libc::RLIMIT_AS, &lim);
    }
}

/// run `f` on a thread with the given stack size (None = on the calling/main thread)
pub fn on_stack<T: Send + 'static>(stack: Option<usize>, f: impl FnOnce() -> T + Send + 'static) -> T {
    match stack {
        None => f(),
        Some(sz) => std::thread::Builder::new()
            .stack_size(sz)
            .spawn(f)
            .expect("spawn")
            .join()
            .expect("child thread panicked"),
    }
}
