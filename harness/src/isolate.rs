//! Child-process isolation for cases that can abort the process (stack
//! overflow, allocation failure) or hang. One case per child.
use std::io::Read;
use std::process::{Command, Stdio};
use std::time::{Duration, Instant};

#[derive(Clone, Debug, PartialEq, Eq)]
pub enum ChildResult {
    /// the child finished; its stdout (one line: outcome class and text)
    Done(String),
    /// killed by a signal (stack overflow = SIGSEGV/SIGABRT)
    Abort(i32),
    /// exit code other than 0
    Exit(i32),
    Hang,
    SpawnError(String),
}

pub fn self_bin(profile_env: &str) -> Option<String> {
    std::env::var(profile_env).ok().filter(|s| !s.is_empty())
}

/// CPU seconds (user + system) the process has consumed so far
pub fn cpu_seconds(pid: u32) -> Option<f64> {
    let s = std::fs::read_to_string(format!("/proc/{}/stat", pid)).ok()?;
    // the command name may hold blanks: fields are counted after the closing parenthesis
    let rest = &s[s.rfind(')')? + 1..];
    let f: Vec<&str> = rest.split_whitespace().collect();
    let ut: f64 = f.get(11)?.parse().ok()?;
    let st: f64 = f.get(12)?.parse().ok()?;
    let tck = unsafe { libc::sysconf(libc::_SC_CLK_TCK) } as f64;
    Some((ut + st) / if tck > 0.0 { tck } else { 100.0 })
}

/// The hang verdict does not depend on the load of the machine: a child is a hang when it has
/// CONSUMED `cpu_budget` of processor time, or when twenty times that has passed on the wall
/// clock (a child that sleeps for ever consumes nothing).
pub fn is_hang(pid: u32, start: Instant, cpu_budget: Duration) -> bool {
    let wall = start.elapsed();
    if wall > cpu_budget * 20 {
        return true;
    }
    if wall > cpu_budget {
        if let Some(c) = cpu_seconds(pid) {
            return c > cpu_budget.as_secs_f64();
        }
    }
    false
}

/// run `bin args...`; `timeout` is a budget of processor time (see `is_hang`)
pub fn run_child(bin: &str, args: &[String], timeout: Duration) -> ChildResult {
    let mut child = match Command::new(bin)
        .args(args)
        .stdin(Stdio::null())
        .stdout(Stdio::piped())
        .stderr(Stdio::null())
        .spawn()
    {
        Ok(c) => c,
        Err(e) => return ChildResult::SpawnError(format!("{}", e)),
    };
    let start = Instant::now();
    loop {
        match child.try_wait() {
            Ok(Some(status)) => {
                let mut out = String::new();
                if let Some(mut so) = child.stdout.take() {
                    let _ = so.read_to_string(&mut out);
                }
                use std::os::unix::process::ExitStatusExt;
                if let Some(sig) = status.signal() {
                    return ChildResult::Abort(sig);
                }
                return match status.code() {
                    Some(0) => ChildResult::Done(out.trim().to_string()),
                    Some(c) => ChildResult::Exit(c),
                    None => ChildResult::Abort(-1),
                };
            }
            Ok(None) => {
                if is_hang(child.id(), start, timeout) {
                    let _ = child.kill();
                    let _ = child.wait();
                    return ChildResult::Hang;
                }
                std::thread::sleep(Duration::from_millis(2));
            }
            Err(e) => return ChildResult::SpawnError(format!("{}", e)),
        }
    }
}

/// in the child: cap the address space so a runaway allocation fails instead of
/// taking the machine down
pub fn limit_address_space(bytes: u64) {
    unsafe {
        let lim = libc::rlimit {
            rlim_cur: bytes,
            rlim_max: bytes,
        };
        libc::setrlimit(libc::RLIMIT_AS, &lim);
    }
}

/// run `f` on a thread with the given stack size (None = on the calling/main thread)
pub fn on_stack<T: Send + 'static>(stack: Option<usize>, f: impl FnOnce() -> T + Send + 'static) -> T {
    match stack {
        None => f(),
        Some(sz) => std::thread::Builder::new()
            .stack_size(sz)
            .spawn(f)
            .expect("spawn")
            .join()
            .expect("child thread panicked"),
    }
}
