//! Exhaustive-enumeration engine: index spaces ("families") explored completely
//! by 16 workers, per-worker accumulators merged deterministically, known
//! findings matching, evidence and replay writers.
use serde_json::{json, Value as J};
use std::collections::{BTreeMap, BTreeSet};
use std::hash::{Hash, Hasher};
use std::sync::atomic::{AtomicU64, Ordering};
use std::time::Instant;

#[derive(Clone, Copy, PartialEq, Eq, Debug)]
pub enum Tier {
    Quick,
    Thorough,
}
impl Tier {
    pub fn name(&self) -> &'static str {
        match self {
            Tier::Quick => "quick",
            Tier::Thorough => "thorough",
        }
    }
    pub fn pick<T>(&self, q: T, t: T) -> T {
        match self {
            Tier::Quick => q,
            Tier::Thorough => t,
        }
    }
}

#[derive(Clone, Debug)]
pub struct Violation {
    pub family: String,
    pub index: u64,
    /// signature used to match known findings: names the call site / relation,
    /// never the concrete operands
    pub key: String,
    /// human-readable description of the concrete case
    pub case: J,
    pub expected: String,
    pub observed: String,
}

pub fn hash_of<T: Hash + ?Sized>(t: &T) -> u64 {
    let mut h = std::collections::hash_map::DefaultHasher::new();
    t.hash(&mut h);
    h.finish()
}

const KEEP_PER_KEY: usize = 3;

/// Per-worker accumulator.
#[derive(Default)]
pub struct Acc {
    pub evaluations: u64,
    pub nontrivial_hashes: Vec<u64>,
    pub outcome_classes: BTreeSet<String>,
    pub violations: BTreeMap<String, (u64, Vec<Violation>)>,
    pub samples: Vec<(String, u64, J)>,
    pub counters: BTreeMap<String, u64>,
    pub family: String,
    pub index: u64,
}

impl Acc {
    /// one case executed on the implementation
    pub fn eval(&mut self) {
        self.evaluations += 1;
    }
    pub fn evals(&mut self, n: u64) {
        self.evaluations += n;
    }
    /// the case with this identity is non-trivial under the property's rule
    pub fn nontrivial<T: Hash + ?Sized>(&mut self, ident: &T) {
        self.nontrivial_hashes.push(hash_of(ident));
    }
    pub fn class(&mut self, c: &str) {
        if !self.outcome_classes.contains(c) {
            self.outcome_classes.insert(c.to_string());
        }
    }
    pub fn count(&mut self, name: &str, n: u64) {
        *self.counters.entry(name.to_string()).or_insert(0) += n;
    }
    pub fn sample(&mut self, case: J) {
        // keep a few spread samples: the first of each worker-family pair and
        // power-of-two indices
        let idx = self.index;
        if self.samples.len() < 4 || (idx.is_power_of_two() && self.samples.len() < 12) {
            self.samples.push((self.family.clone(), idx, case));
        }
    }
    pub fn wants_sample(&self) -> bool {
        self.samples.len() < 4 || (self.index.is_power_of_two() && self.samples.len() < 12)
    }
    pub fn violation(&mut self, key: &str, case: J, expected: String, observed: String) {
        let e = self
            .violations
            .entry(key.to_string())
            .or_insert_with(|| (0, Vec::new()));
        e.0 += 1;
        let v = Violation {
            family: self.family.clone(),
            index: self.index,
            key: key.to_string(),
            case,
            expected,
            observed,
        };
        e.1.push(v);
        e.1.sort_by(|a, b| (a.family.as_str(), a.index).cmp(&(b.family.as_str(), b.index)));
        e.1.truncate(KEEP_PER_KEY);
    }
    pub fn merge(&mut self, o: Acc) {
        self.evaluations += o.evaluations;
        self.nontrivial_hashes.extend(o.nontrivial_hashes);
        self.outcome_classes.extend(o.outcome_classes);
        for (k, (n, vs)) in o.violations {
            let e = self.violations.entry(k).or_insert_with(|| (0, Vec::new()));
            e.0 += n;
            e.1.extend(vs);
            e.1.sort_by(|a, b| (a.family.as_str(), a.index).cmp(&(b.family.as_str(), b.index)));
            e.1.truncate(KEEP_PER_KEY);
        }
        self.samples.extend(o.samples);
        for (k, n) in o.counters {
            *self.counters.entry(k).or_insert(0) += n;
        }
    }
}

pub struct Family<'a> {
    pub name: String,
    pub size: u64,
    pub run: Box<dyn Fn(u64, &mut Acc) + Sync + 'a>,
}

impl<'a> Family<'a> {
    pub fn new(name: &str, size: u64, run: impl Fn(u64, &mut Acc) + Sync + 'a) -> Family<'a> {
        Family {
            name: name.to_string(),
            size,
            run: Box::new(run),
        }
    }
}

pub fn workers() -> usize {
    std::env::var("VERIF_WORKERS")
        .ok()
        .and_then(|s| s.parse().ok())
        .unwrap_or_else(|| {
            std::thread::available_parallelism()
                .map(|n| n.get())
                .unwrap_or(8)
                .min(16)
        })
}

/// Explore every index of a family; returns the merged accumulator.
/// property and tier of the running check, for the watchdog's report
static RUNNING: std::sync::Mutex<(String, String)> = std::sync::Mutex::new((String::new(), String::new()));

/// processor time one case may consume before the watchdog reports it as a hang (the slowest
/// legitimate in-process case of any family takes a few seconds)
const CASE_CPU_BUDGET_S: f64 = 120.0;

/// processor seconds consumed so far by one thread of this process
fn thread_cpu_seconds(tid: i64) -> Option<f64> {
    let s = std::fs::read_to_string(format!("/proc/self/task/{}/stat", tid)).ok()?;
    let rest = &s[s.rfind(')')? + 1..];
    let f: Vec<&str> = rest.split_whitespace().collect();
    let ut: f64 = f.get(11)?.parse().ok()?;
    let st: f64 = f.get(12)?.parse().ok()?;
    let tck = unsafe { libc::sysconf(libc::_SC_CLK_TCK) } as f64;
    Some((ut + st) / if tck > 0.0 { tck } else { 100.0 })
}

/// A case that never returns would stall the whole check. The watchdog looks at every worker once a
/// second; a worker that has spent CASE_CPU_BUDGET_S of processor time inside one case is reported
/// as a violation (the implementation does not return), with a replay file naming the case, and
/// the process exits 1. Judged by processor time of the thread, never by the wall clock.
fn report_hang(family: &str, index: u64, cpu: f64) -> ! {
    let (prop, tier) = RUNNING.lock().map(|g| g.clone()).unwrap_or_default();
    let dir = verif_dir();
    let rdir = format!("{}/replays/{}", dir, prop);
    let _ = std::fs::create_dir_all(&rdir);
    let path = format!("{}/{}-hang.json", rdir, tier);
    let key = format!("no-result family {} (a case does not return)", family);
    let body = json!({
        "property": prop, "tier": tier, "key": key, "family": family, "index": index,
        "expected": "a value or an error",
        "observed": format!("no result after {:.0} s of processor time in this one case", cpu),
        "replay": format!("./check {} --replay {}", prop, path),
    });
    let _ = std::fs::write(&path, serde_json::to_string_pretty(&body).unwrap_or_default());
    println!("VIOLATION property={} replay={}", prop, path);
    println!("  key={} family={} index={} observed=no result after {:.0} s of processor time", key, family, index, cpu);
    std::process::exit(1);
}

pub fn explore(fam: &Family) -> Acc {
    let n = fam.size;
    let nw = workers().max(1);
    let chunk: u64 = ((n / (nw as u64 * 64)).max(1)).min(4096);
    let next = AtomicU64::new(0);
    let mut total = Acc::default();
    // per worker: thread id and the case it is in (u64::MAX = between cases)
    let slots: Vec<(std::sync::atomic::AtomicI64, AtomicU64)> = (0..nw).map(|_| (std::sync::atomic::AtomicI64::new(0), AtomicU64::new(u64::MAX))).collect();
    let done = std::sync::atomic::AtomicBool::new(false);
    let accs: Vec<Acc> = std::thread::scope(|s| {
        let mut hs = Vec::new();
        for w in 0..nw {
            let (next, slots) = (&next, &slots);
            hs.push(s.spawn(move || {
                let mut acc = Acc::default();
                acc.family = fam.name.clone();
                slots[w].0.store(unsafe { libc::syscall(libc::SYS_gettid) } as i64, Ordering::Relaxed);
                loop {
                    let start = next.fetch_add(chunk, Ordering::Relaxed);
                    if start >= n {
                        break;
                    }
                    let end = (start + chunk).min(n);
                    for i in start..end {
                        acc.index = i;
                        slots[w].1.store(i, Ordering::Relaxed);
                        (fam.run)(i, &mut acc);
                    }
                }
                slots[w].1.store(u64::MAX, Ordering::Relaxed);
                acc
            }));
        }
        // the watchdog
        let (slots, done) = (&slots, &done);
        s.spawn(move || {
            // (case seen at the last look, processor time of the thread when it entered that case)
            let mut seen: Vec<(u64, f64)> = vec![(u64::MAX, 0.0); slots.len()];
            'watch: loop {
                // look at the workers twice a second, at the end-of-family flag every 5 ms
                for _ in 0..100 {
                    if done.load(Ordering::Relaxed) {
                        break 'watch;
                    }
                    std::thread::sleep(std::time::Duration::from_millis(5));
                }
                for (w, (tid, idx)) in slots.iter().enumerate() {
                    let (tid, idx) = (tid.load(Ordering::Relaxed), idx.load(Ordering::Relaxed));
                    if tid == 0 || idx == u64::MAX {
                        seen[w] = (u64::MAX, 0.0);
                        continue;
                    }
                    let cpu = match thread_cpu_seconds(tid) {
                        Some(c) => c,
                        None => continue,
                    };
                    if seen[w].0 != idx {
                        seen[w] = (idx, cpu);
                    } else if cpu - seen[w].1 > CASE_CPU_BUDGET_S {
                        report_hang(&fam.name, idx, cpu - seen[w].1);
                    }
                }
            }
        });
        // stop the watchdog on every way out of this block, also when a worker panicked
        struct Stop<'a>(&'a std::sync::atomic::AtomicBool);
        impl Drop for Stop<'_> {
            fn drop(&mut self) {
                self.0.store(true, Ordering::Relaxed);
            }
        }
        let _stop = Stop(done);
        hs.into_iter().map(|h| h.join().expect("worker panicked (machinery error)")).collect()
    });
    for a in accs {
        total.merge(a);
    }
    total
}

/// mixed-radix decoding of an index into digits for the given radices
/// (first radix varies slowest)
pub fn unrank(mut idx: u64, radices: &[u64]) -> Vec<u64> {
    let mut out = vec![0u64; radices.len()];
    for i in (0..radices.len()).rev() {
        out[i] = idx % radices[i];
        idx /= radices[i];
    }
    out
}
pub fn product(radices: &[u64]) -> u64 {
    radices.iter().product()
}

// ---------------------------------------------------------------------------

pub struct KnownFinding {
    pub property: String,
    pub key: String,
    pub what: String,
}

pub fn verif_dir() -> String {
    std::env::var("VERIF_DIR").unwrap_or_else(|_| "/verif".to_string())
}

/// Lines of /verif/known_findings.txt:
///   known: property=<id> key=<key> :: <what fails>
///   fixed: property=<id> <commit> <what failed>       (suppresses nothing)
pub fn load_known(prop: &str) -> Vec<KnownFinding> {
    let path = format!("{}/known_findings.txt", verif_dir());
    let text = std::fs::read_to_string(&path).unwrap_or_default();
    let mut out = Vec::new();
    for line in text.lines() {
        let line = line.trim();
        if let Some(rest) = line.strip_prefix("known: property=") {
            let (id, rest) = match rest.split_once(' ') {
                Some(x) => x,
                None => continue,
            };
            if id != prop {
                continue;
            }
            let rest = rest.trim();
            if let Some(rest) = rest.strip_prefix("key=") {
                let (key, what) = match rest.split_once(" :: ") {
                    Some((k, w)) => (k.trim(), w.trim()),
                    None => (rest.trim(), ""),
                };
                out.push(KnownFinding {
                    property: id.to_string(),
                    key: key.to_string(),
                    what: what.to_string(),
                });
            }
        }
    }
    out
}

pub struct Report {
    pub prop: &'static str,
    pub tier: Tier,
    pub level: &'static str,
    pub rule: String,
    pub acc: Acc,
    pub start: Instant,
    pub exhaustive: bool,
    pub caps: Vec<String>,
    pub extra: BTreeMap<String, J>,
    pub assumptions: Vec<String>,
    pub family_sizes: Vec<(String, u64)>,
    pub min_outcome_classes: usize,
}

impl Report {
    pub fn new(prop: &'static str, tier: Tier, level: &'static str) -> Report {
        if let Ok(mut g) = RUNNING.lock() {
            *g = (prop.to_string(), tier.name().to_string());
        }
        Report {
            prop,
            tier,
            level,
            rule: String::new(),
            acc: Acc::default(),
            start: Instant::now(),
            exhaustive: true,
            caps: Vec::new(),
            extra: BTreeMap::new(),
            assumptions: Vec::new(),
            family_sizes: Vec::new(),
            min_outcome_classes: 2,
        }
    }

    pub fn run_family(&mut self, fam: Family) {
        let t = Instant::now();
        let a = explore(&fam);
        eprintln!(
            "[{}] family {:<28} size {:>10}  evals {:>10}  violations {:>6}  {:.1}s",
            self.prop,
            fam.name,
            fam.size,
            a.evaluations,
            a.violations.values().map(|v| v.0).sum::<u64>(),
            t.elapsed().as_secs_f64()
        );
        self.family_sizes.push((fam.name.clone(), fam.size));
        self.acc.merge(a);
    }

    pub fn set(&mut self, k: &str, v: J) {
        self.extra.insert(k.to_string(), v);
    }

    /// Write evidence, print KNOWN-FINDING / VIOLATION lines, return the exit code.
    pub fn finish(mut self) -> i32 {
        let dir = verif_dir();
        let known = load_known(self.prop);
        let mut hashes = std::mem::take(&mut self.acc.nontrivial_hashes);
        hashes.sort_unstable();
        hashes.dedup();
        let distinct_nontrivial = hashes.len() as u64;

        let mut new_violations: Vec<&Violation> = Vec::new();
        let mut known_hit: BTreeMap<String, (u64, Option<&Violation>)> = BTreeMap::new();
        let mut n_unlisted = 0u64;
        for (key, (n, vs)) in &self.acc.violations {
            if known.iter().any(|k| &k.key == key) {
                known_hit.insert(key.clone(), (*n, vs.first()));
            } else {
                n_unlisted += n;
                if let Some(v) = vs.first() {
                    new_violations.push(v);
                }
            }
        }

        for k in &known {
            match known_hit.get(&k.key) {
                Some((n, v)) => {
                    let eg = v
                        .map(|v| format!(" e.g. {} expected {} observed {}", v.case, v.expected, v.observed))
                        .unwrap_or_default();
                    println!(
                        "KNOWN-FINDING: property={} {} [{}] ({} cases this run;{})",
                        self.prop, k.what, k.key, n, eg
                    );
                }
                None => {
                    eprintln!(
                        "NOTE: listed finding did not occur in this run (tier {}): property={} key={}",
                        self.tier.name(),
                        self.prop,
                        k.key
                    );
                }
            }
        }

        let rdir = format!("{}/replays/{}", dir, self.prop);
        let mut replay_paths = Vec::new();
        // replay files of an earlier run of this tier say nothing about this one
        if let Ok(rd) = std::fs::read_dir(&rdir) {
            let prefix = format!("{}-", self.tier.name());
            for e in rd.flatten() {
                if e.file_name().to_string_lossy().starts_with(&prefix) {
                    let _ = std::fs::remove_file(e.path());
                }
            }
        }
        if !new_violations.is_empty() {
            let _ = std::fs::create_dir_all(&rdir);
        }
        // one replay file and VIOLATION line per distinct signature, at most MAX_REPORTED of them
        // (the remaining signatures are counted in the evidence and on stderr)
        const MAX_REPORTED: usize = 40;
        if new_violations.len() > MAX_REPORTED {
            eprintln!(
                "[{}] {} distinct violation signatures; writing replay files for the first {}",
                self.prop,
                new_violations.len(),
                MAX_REPORTED
            );
        }
        for (i, v) in new_violations.iter().enumerate().take(MAX_REPORTED) {
            let path = format!("{}/{}-{}.json", rdir, self.tier.name(), i);
            let all: Vec<J> = self.acc.violations[&v.key]
                .1
                .iter()
                .map(|x| json!({"family": x.family, "index": x.index, "case": x.case, "expected": x.expected, "observed": x.observed}))
                .collect();
            let body = json!({
                "property": self.prop,
                "tier": self.tier.name(),
                "key": v.key,
                "family": v.family,
                "index": v.index,
                "case": v.case,
                "expected": v.expected,
                "observed": v.observed,
                "count_with_this_key": self.acc.violations[&v.key].0,
                "smallest_cases": all,
                "replay": format!("./check {} --replay {}", self.prop, path),
            });
            std::fs::write(&path, serde_json::to_string_pretty(&body).unwrap()).expect("write replay");
            println!("VIOLATION property={} replay={}", self.prop, path);
            eprintln!(
                "  key={} case={} expected={} observed={}",
                v.key, v.case, v.expected, v.observed
            );
            replay_paths.push(path);
        }

        // vacuity guard
        let classes: Vec<String> = self.acc.outcome_classes.iter().cloned().collect();
        let vacuous = classes.len() < self.min_outcome_classes || distinct_nontrivial < 2;

        let mut samples: Vec<J> = Vec::new();
        self.acc.samples.sort_by(|a, b| (a.0.as_str(), a.1).cmp(&(b.0.as_str(), b.1)));
        let mut per_family: BTreeMap<String, usize> = BTreeMap::new();
        for (f, i, c) in &self.acc.samples {
            let n = per_family.entry(f.clone()).or_insert(0);
            if *n < 3 {
                samples.push(json!({"family": f, "index": i, "case": c}));
                *n += 1;
            }
        }

        let mut coverage = serde_json::Map::new();
        coverage.insert("evaluations".into(), json!(self.acc.evaluations));
        coverage.insert("distinct_nontrivial".into(), json!(distinct_nontrivial));
        coverage.insert("rule".into(), json!(self.rule));
        coverage.insert("samples".into(), J::Array(samples));
        coverage.insert("exhaustive".into(), json!(self.exhaustive && self.caps.is_empty()));
        coverage.insert("caps_hit".into(), json!(self.caps));
        coverage.insert("distinct_outcome_classes".into(), json!(classes));
        coverage.insert(
            "families".into(),
            J::Array(
                self.family_sizes
                    .iter()
                    .map(|(n, s)| json!({"family": n, "size": s}))
                    .collect(),
            ),
        );
        coverage.insert("counters".into(), json!(self.acc.counters));
        coverage.insert(
            "known_findings_matched".into(),
            json!(known_hit.iter().map(|(k, (n, _))| json!({"key": k, "cases": n})).collect::<Vec<_>>()),
        );
        coverage.insert("unlisted_violation_cases".into(), json!(n_unlisted));
        coverage.insert("replays".into(), json!(replay_paths));
        for (k, v) in &self.extra {
            coverage.insert(k.clone(), v.clone());
        }
        let seed: i64 = std::env::var("VERIF_SEED")
            .ok()
            .and_then(|s| s.parse().ok())
            .unwrap_or(0);
        let ev = json!({
            "property_id": self.prop,
            "tier": self.tier.name(),
            "seed": seed,
            "level": self.level,
            "coverage": J::Object(coverage),
            "assumptions": self.assumptions,
            "wall_s": self.start.elapsed().as_secs_f64(),
            "violations": new_violations.len(),
        });
        let _ = std::fs::create_dir_all(format!("{}/evidence", dir));
        let epath = format!("{}/evidence/{}.json", dir, self.prop);
        std::fs::write(&epath, serde_json::to_string_pretty(&ev).unwrap()).expect("write evidence");

        eprintln!(
            "[{}] tier={} evaluations={} distinct_nontrivial={} outcome_classes={} known={} new_violation_keys={} wall={:.1}s",
            self.prop,
            self.tier.name(),
            self.acc.evaluations,
            distinct_nontrivial,
            classes.len(),
            known_hit.len(),
            new_violations.len(),
            self.start.elapsed().as_secs_f64()
        );
        if !new_violations.is_empty() {
            return 1;
        }
        if vacuous {
            eprintln!(
                "MACHINERY ERROR: vacuous run (outcome classes {:?}, distinct nontrivial {})",
                classes, distinct_nontrivial
            );
            return 2;
        }
        0
    }
}
