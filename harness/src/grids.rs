//! Boundary grids shared by several properties.
use crate::engine::Tier;
use crate::val::V;

pub fn int_grid(t: Tier) -> Vec<i64> {
    let mut v: Vec<i64> = vec![
        0,
        1,
        -1,
        2,
        -2,
        3,
        -3,
        7,
        -7,
        (1 << 31) - 1,
        -((1 << 31) - 1),
        1 << 31,
        -(1 << 31),
        (1 << 53) - 1,
        -((1 << 53) - 1),
        1 << 53,
        -(1 << 53),
        (1 << 53) + 1,
        -((1 << 53) + 1),
        i64::MAX,
        i64::MAX - 1,
        i64::MIN,
        i64::MIN + 1,
        3037000500, // ceil(sqrt(2^63))
        -3037000500,
    ];
    if t == Tier::Thorough {
        for k in 0..63u32 {
            let p = 1i64 << k;
            for d in [-1i64, 0, 1] {
                v.push(p + d);
                v.push(-(p + d));
            }
        }
        v.push(10);
        v.push(-10);
        v.push(1_000_000_007);
    }
    v.sort();
    v.dedup();
    v
}

pub fn uint_grid(t: Tier) -> Vec<u64> {
    let mut v: Vec<u64> = vec![
        0,
        1,
        2,
        3,
        7,
        1 << 32,
        (1 << 53) + 1,
        (1 << 63) - 1,
        1 << 63,
        (1 << 63) + 1,
        u64::MAX - 1,
        u64::MAX,
        4294967296 - 1,
    ];
    if t == Tier::Thorough {
        for k in 0..64u32 {
            let p = 1u64 << k;
            v.push(p);
            v.push(p.wrapping_sub(1));
            v.push(p.wrapping_add(1));
        }
        v.push(10);
    }
    v.sort();
    v.dedup();
    v
}

pub fn dbl_grid(_t: Tier) -> Vec<f64> {
    let mut v = vec![
        0.0,
        -0.0,
        1.0,
        -1.0,
        0.5,
        -0.5,
        1.5,
        -1.5,
        9007199254740992.0,
        -9007199254740992.0,
        9007199254740994.0,
        9223372036854775808.0,
        -9223372036854775808.0,
        18446744073709551616.0,
        f64::from_bits(1),
        -f64::from_bits(1),
        f64::MIN_POSITIVE,
        -f64::MIN_POSITIVE,
        f64::MAX,
        f64::MIN,
        f64::INFINITY,
        f64::NEG_INFINITY,
        f64::NAN,
        0.1,
        1e300,
        2.5,
    ];
    v.dedup_by(|a, b| a.to_bits() == b.to_bits());
    v
}

/// one representative of each non-numeric type
pub fn other_grid() -> Vec<V> {
    vec![
        V::Bool(true),
        V::Bool(false),
        V::s("a"),
        V::s(""),
        V::Bytes(vec![97]),
        V::list(&[V::Int(1)]),
        V::map(&[("k", V::Int(1))]),
        V::Null,
        V::Type("int".into()),
        V::Ts(1_700_000_000 * crate::val::NS),
        V::Dur(90 * crate::val::NS),
    ]
}

pub fn numeric_grid(t: Tier) -> Vec<V> {
    let mut out = Vec::new();
    for i in int_grid(t) {
        out.push(V::Int(i));
    }
    for u in uint_grid(t) {
        out.push(V::UInt(u));
    }
    for d in dbl_grid(t) {
        out.push(V::Dbl(d));
    }
    out
}

/// numeric grid + one value per other type
pub fn full_grid(t: Tier) -> Vec<V> {
    let mut out = numeric_grid(t);
    out.extend(other_grid());
    out
}

/// How a value is placed into source text.
#[derive(Clone, Copy, PartialEq, Eq, Debug, Hash)]
pub enum Form {
    Lit,
    Var,
}
