//! C03 — numeric operators are exact or fail; no wrap-around, no
//! form- or profile-dependent result.
use crate::engine::*;
use crate::grids::*;
use crate::real::{self, Outcome};
use crate::refmodel::{self, Arith, Exp};
use crate::val::V;
use serde_json::json;
use std::sync::atomic::{AtomicU64, Ordering};

pub const ID: &str = "C03";

fn render(a: &V, b: &V, op: Arith, fa: Form, fb: Form) -> Option<(String, Vec<(&'static str, V)>)> {
    let mut binds = Vec::new();
    let sa = match fa {
        Form::Lit => a.lit()?,
        Form::Var => {
            binds.push(("a", a.clone()));
            "a".to_string()
        }
    };
    let sb = match fb {
        Form::Lit => b.lit()?,
        Form::Var => {
            binds.push(("b", b.clone()));
            "b".to_string()
        }
    };
    Some((format!("{} {} {}", sa, op.sym(), sb), binds))
}

fn judge(exp: &Exp, got: &Outcome) -> Option<&'static str> {
    match got {
        Outcome::Panic { .. } => return Some("panic"),
        Outcome::CompileFail { .. } | Outcome::CompileErr(..) => return Some("compile-error"),
        _ => {}
    }
    match exp {
        Exp::Unspec => None,
        Exp::Fail => {
            if got.is_fail() {
                None
            } else {
                Some("value-instead-of-error")
            }
        }
        Exp::Val(v) => match got.value() {
            Some(g) => {
                if g.same(v) {
                    None
                } else if g.type_name() != v.type_name() {
                    Some("wrong-result-type")
                } else {
                    Some("wrong-value")
                }
            }
            None => {
                if got.is_fail() {
                    Some("error-instead-of-value")
                } else {
                    Some("non-value")
                }
            }
        },
    }
}

pub struct Space {
    grid: Vec<V>,
    hashes: Vec<AtomicU64>,
    nhashes: Vec<AtomicU64>,
}

const FORMS: [(Form, Form); 4] = [
    (Form::Lit, Form::Lit),
    (Form::Lit, Form::Var),
    (Form::Var, Form::Lit),
    (Form::Var, Form::Var),
];

impl Space {
    pub fn new(t: Tier) -> Space {
        let grid = full_grid(t);
        let n = grid.len() as u64;
        let mut hashes = Vec::new();
        hashes.resize_with((n * n * 5) as usize, || AtomicU64::new(0));
        let mut nhashes = Vec::new();
        nhashes.resize_with(n as usize, || AtomicU64::new(0));
        Space { grid, hashes, nhashes }
    }
    pub fn pairs_size(&self) -> u64 {
        (self.grid.len() * self.grid.len() * 5) as u64
    }

    /// one index = (a, b, op); the four literal/bound forms are run inside
    pub fn run_pair(&self, idx: u64, acc: &mut Acc) {
        let n = self.grid.len() as u64;
        let d = unrank(idx, &[n, n, 5]);
        let a = &self.grid[d[0] as usize];
        let b = &self.grid[d[1] as usize];
        let op = Arith::ALL[d[2] as usize];
        let exp = refmodel::arith(op, a, b);
        let mut first: Option<Outcome> = None;
        let mut h: u64 = 0;
        for (fa, fb) in FORMS {
            let (src, binds) = match render(a, b, op, fa, fb) {
                Some(x) => x,
                None => continue,
            };
            let got = real::eval(&src, &binds);
            acc.eval();
            acc.class(&got.class());
            h = h.wrapping_mul(31).wrapping_add(hash_of(&got.show()));
            let case = || {
                json!({"src": src, "bindings": binds.iter().map(|(k, v)| json!([k, v.show()])).collect::<Vec<_>>(),
                       "a": a.show(), "b": b.show(), "op": op.sym(), "forms": format!("{:?}/{:?}", fa, fb)})
            };
            if let Some(kind) = judge(&exp, &got) {
                acc.violation(
                    &format!("{} {}x{} {}", op.sym(), a.type_name(), b.type_name(), kind),
                    case(),
                    exp.show(),
                    got.show(),
                );
            }
            match &first {
                None => first = Some(got.clone()),
                Some(f) => {
                    if !f.agrees_class(&got) {
                        acc.violation(
                            &format!("{} {}x{} literal-vs-bound-differ", op.sym(), a.type_name(), b.type_name()),
                            case(),
                            format!("same outcome as the first form: {}", f.show()),
                            got.show(),
                        );
                    }
                }
            }
            if !matches!(exp, Exp::Unspec) {
                acc.nontrivial(&(idx, fa, fb));
            }
            if acc.wants_sample() && fa == Form::Var && fb == Form::Lit {
                acc.sample(json!({"src": src, "a": a.show(), "expected": exp.show(), "observed": got.show()}));
            }
        }
        self.hashes[idx as usize].store(h, Ordering::Relaxed);
    }

    pub fn run_neg(&self, idx: u64, acc: &mut Acc) {
        let a = &self.grid[idx as usize];
        let exp = refmodel::neg(a);
        let mut h = 0u64;
        let mut first: Option<Outcome> = None;
        for form in [Form::Lit, Form::Var] {
            // runs of two and three minus signs apply the operator that often
            for run in 2..=3usize {
                let mut e = exp.clone();
                for _ in 1..run {
                    e = match &e {
                        Exp::Val(v) => refmodel::neg(v),
                        other => other.clone(),
                    };
                }
                let (src, binds): (String, Vec<(&str, V)>) = match form {
                    Form::Lit => match a.lit() {
                        // an int literal directly after a minus run may be read as one negative literal
                        Some(l) if !matches!(a, V::Int(_)) || l.starts_with('(') => (format!("{}{}", "-".repeat(run), l), vec![]),
                        _ => continue,
                    },
                    Form::Var => (format!("{}a", "-".repeat(run)), vec![("a", a.clone())]),
                };
                let got = real::eval(&src, &binds);
                acc.eval();
                if let Some(kind) = judge(&e, &got) {
                    acc.violation(&format!("neg-run {} {}", a.type_name(), kind), json!({"src": src, "a": a.show()}), e.show(), got.show());
                }
            }
            let (src, binds): (String, Vec<(&str, V)>) = match form {
                Form::Lit => match a.lit() {
                    Some(l) => (format!("-{}", l), vec![]),
                    None => continue,
                },
                Form::Var => ("-a".to_string(), vec![("a", a.clone())]),
            };
            let got = real::eval(&src, &binds);
            acc.eval();
            acc.class(&got.class());
            h = h.wrapping_mul(31).wrapping_add(hash_of(&got.show()));
            let case = json!({"src": src, "a": a.show()});
            if let Some(kind) = judge(&exp, &got) {
                acc.violation(
                    &format!("neg {} {}", a.type_name(), kind),
                    case.clone(),
                    exp.show(),
                    got.show(),
                );
            }
            match &first {
                None => first = Some(got.clone()),
                Some(f) => {
                    if !f.agrees_class(&got) {
                        acc.violation(
                            &format!("neg {} literal-vs-bound-differ", a.type_name()),
                            case.clone(),
                            f.show(),
                            got.show(),
                        );
                    }
                }
            }
            if !matches!(exp, Exp::Unspec) {
                acc.nontrivial(&("neg", idx, form));
            }
        }
        self.nhashes[idx as usize].store(h, Ordering::Relaxed);
    }
}

// ---- chains: (a op1 b) op2 c and a op1 (b op2 c): intermediate results feed the next operator ----

fn chain_grid() -> Vec<V> {
    vec![
        V::Int(0),
        V::Int(1),
        V::Int(-1),
        V::Int(i64::MAX),
        V::Int(i64::MIN),
        V::UInt(1),
        V::UInt(1 << 63),
        V::UInt(u64::MAX),
        V::Dbl(1.5),
        V::Dbl(f64::NAN),
        V::Dbl(9007199254740993.0),
        V::Bool(true),
    ]
}

fn chain_size() -> u64 {
    let n = chain_grid().len() as u64;
    n * n * n * 25 * 2
}

fn run_chain(idx: u64, acc: &mut Acc) {
    let g = chain_grid();
    let n = g.len() as u64;
    let d = unrank(idx, &[n, n, n, 5, 5, 2]);
    let (a, b, c) = (&g[d[0] as usize], &g[d[1] as usize], &g[d[2] as usize]);
    let (o1, o2) = (Arith::ALL[d[3] as usize], Arith::ALL[d[4] as usize]);
    let left = d[5] == 0;
    // reference: the inner operation first; its failure fails the whole expression
    let step = |op: Arith, x: &Exp, y: &Exp| -> Exp {
        match (x, y) {
            (Exp::Unspec, _) | (_, Exp::Unspec) => Exp::Unspec,
            (Exp::Fail, _) | (_, Exp::Fail) => Exp::Fail,
            (Exp::Val(p), Exp::Val(q)) => refmodel::arith(op, p, q),
        }
    };
    let (ea, eb, ec) = (Exp::Val(a.clone()), Exp::Val(b.clone()), Exp::Val(c.clone()));
    let exp = if left { step(o2, &step(o1, &ea, &eb), &ec) } else { step(o1, &ea, &step(o2, &eb, &ec)) };
    let mut first: Option<Outcome> = None;
    for mask in 0u32..8 {
        let mut binds: Vec<(&str, V)> = Vec::new();
        let mut txt = Vec::new();
        for (i, (v, name)) in [(a, "a"), (b, "b"), (c, "c")].into_iter().enumerate() {
            if mask & (1 << i) != 0 {
                txt.push(v.lit().unwrap());
            } else {
                binds.push((name, v.clone()));
                txt.push(name.to_string());
            }
        }
        let src = if left {
            format!("({} {} {}) {} {}", txt[0], o1.sym(), txt[1], o2.sym(), txt[2])
        } else {
            format!("{} {} ({} {} {})", txt[0], o1.sym(), txt[1], o2.sym(), txt[2])
        };
        // the flat spelling groups the same way when both operators have the same precedence
        let additive = |o: Arith| matches!(o, Arith::Add | Arith::Sub);
        if left && additive(o1) == additive(o2) {
            let flat = format!("{} {} {} {} {}", txt[0], o1.sym(), txt[1], o2.sym(), txt[2]);
            let gf = real::eval(&flat, &binds);
            acc.eval();
            if let Some(kind) = judge(&exp, &gf) {
                acc.violation(
                    &format!("flat-chain {} then {} on {}x{}x{} {}", o1.sym(), o2.sym(), a.type_name(), b.type_name(), c.type_name(), kind),
                    json!({"src": flat, "a": a.show(), "b": b.show(), "c": c.show()}),
                    exp.show(),
                    gf.show(),
                );
            }
        }
        let got = real::eval(&src, &binds);
        acc.eval();
        acc.class(&got.class());
        let case = || json!({"src": src, "a": a.show(), "b": b.show(), "c": c.show()});
        let site = format!("chain {} then {} on {}x{}x{}", if left { o1.sym() } else { o2.sym() }, if left { o2.sym() } else { o1.sym() }, a.type_name(), b.type_name(), c.type_name());
        if let Some(kind) = judge(&exp, &got) {
            acc.violation(&format!("{} {}", site, kind), case(), exp.show(), got.show());
        }
        match &first {
            None => first = Some(got),
            Some(f) => {
                if !f.agrees_class(&got) {
                    acc.violation(&format!("{} literal-vs-bound-differ", site), case(), f.show(), got.show());
                }
            }
        }
    }
    if !matches!(exp, Exp::Unspec) {
        acc.nontrivial(&("chain", idx));
    }
    if acc.wants_sample() {
        acc.sample(json!({"a": a.show(), "b": b.show(), "c": c.show(), "ops": [o1.sym(), o2.sym()], "left_grouping": left, "expected": exp.show()}));
    }
}

pub fn replay_families(t: Tier) -> Vec<Family<'static>> {
    let sp: &'static Space = Box::leak(Box::new(Space::new(t)));
    vec![
        Family::new("chains", chain_size(), run_chain),
        Family::new("pairs", sp.pairs_size(), move |i, a| sp.run_pair(i, a)),
        Family::new("neg", sp.grid.len() as u64, move |i, a| sp.run_neg(i, a)),
    ]
}

fn dump_hashes(sp: &Space, path: &str) {
    let mut bytes = Vec::with_capacity((sp.hashes.len() + sp.nhashes.len()) * 8);
    for h in sp.hashes.iter().chain(sp.nhashes.iter()) {
        bytes.extend_from_slice(&h.load(Ordering::Relaxed).to_le_bytes());
    }
    std::fs::write(path, bytes).expect("write hashes");
}

pub fn run(t: Tier, hash_out: Option<String>) -> i32 {
    let mut rep = Report::new(ID, t, "exploration");
    rep.rule = "all ordered pairs of the boundary grid (ints, uints, doubles incl. NaN/inf/subnormals, one value of every other type) x {+ - * / %} x 4 literal/bound forms, plus unary minus on every grid value in both forms; chains: (a op b) op c and a op (b op c) over all triples of a 12-value grid x all 25 operator pairs x 8 literal/bound forms (an intermediate result - widened, overflowed or failed - feeds the next operator); each case compiled and executed through the public API and compared with exact i128 / IEEE reference arithmetic; a case is non-trivial when the property fixes its outcome (value or error), distinct by (operands, operator, form)".to_string();
    let sp = Space::new(t);
    rep.run_family(Family::new("pairs", sp.pairs_size(), |i, a| sp.run_pair(i, a)));
    rep.run_family(Family::new("neg", sp.grid.len() as u64, |i, a| sp.run_neg(i, a)));
    if hash_out.is_none() {
        rep.run_family(Family::new("chains", chain_size(), run_chain));
    }
    rep.set("grid_size", json!(sp.grid.len()));
    if let Some(p) = hash_out {
        // peer mode: only emit per-case outcome hashes for the profile comparison
        dump_hashes(&sp, &p);
        return 0;
    }
    // profile independence: the same enumeration in the release-profile binary
    match std::env::var("VERIF_PEER_BIN") {
        Ok(peer) if !peer.is_empty() => {
            let tmp = format!("{}/target/c03-peer-{}.hashes", verif_dir(), t.name());
            let st = std::process::Command::new(&peer)
                .args(["C03", "--tier", t.name(), "--hash-out", &tmp])
                .stdout(std::process::Stdio::null())
                .stderr(std::process::Stdio::null())
                .status();
            let ok = matches!(st, Ok(s) if s.success());
            if !ok {
                eprintln!("MACHINERY ERROR: peer profile run failed");
                return 2;
            }
            let bytes = std::fs::read(&tmp).expect("peer hashes");
            let _ = std::fs::remove_file(&tmp);
            let n = sp.hashes.len() + sp.nhashes.len();
            if bytes.len() != n * 8 {
                eprintln!("MACHINERY ERROR: peer hash file has wrong size");
                return 2;
            }
            let mut acc = Acc::default();
            acc.family = "pairs".into();
            let g = sp.grid.len() as u64;
            for (i, h) in sp.hashes.iter().chain(sp.nhashes.iter()).enumerate() {
                let mine = h.load(Ordering::Relaxed);
                let theirs = u64::from_le_bytes(bytes[i * 8..i * 8 + 8].try_into().unwrap());
                if mine != theirs {
                    if i < sp.hashes.len() {
                        let d = unrank(i as u64, &[g, g, 5]);
                        let a = &sp.grid[d[0] as usize];
                        let b = &sp.grid[d[1] as usize];
                        let op = Arith::ALL[d[2] as usize];
                        acc.index = i as u64;
                        acc.violation(
                            &format!("{} {}x{} profile-dependent", op.sym(), a.type_name(), b.type_name()),
                            json!({"a": a.show(), "b": b.show(), "op": op.sym()}),
                            "identical outcomes in the checked and release build profiles".into(),
                            "outcomes differ between build profiles".into(),
                        );
                    } else {
                        let a = &sp.grid[i - sp.hashes.len()];
                        acc.family = "neg".into();
                        acc.index = (i - sp.hashes.len()) as u64;
                        acc.violation(
                            &format!("neg {} profile-dependent", a.type_name()),
                            json!({"a": a.show()}),
                            "identical outcomes in both build profiles".into(),
                            "outcomes differ between build profiles".into(),
                        );
                    }
                }
            }
            rep.set("profiles_compared", json!(["checked", "release"]));
            rep.set("profile_comparisons", json!(n));
            rep.acc.merge(acc);
        }
        _ => {
            rep.set("profiles_compared", json!(["checked"]));
            rep.caps.push("release-profile peer binary not provided; profile independence not compared".into());
        }
    }
    rep.assumptions = vec![
        "hardware IEEE-754 double arithmetic is the reference for double results".into(),
        "values outside the boundary grid are not explored".into(),
        "double % double and time arithmetic are not fixed by this property (totality only)".into(),
    ];
    rep.finish()
}
