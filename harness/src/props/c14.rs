//! C14 — type conversions are exact on their domain and reject the rest; f-strings.
use crate::engine::*;
use crate::grids::*;
use crate::real::{self, Outcome};
use crate::refmodel::{self, Exp};
use crate::val::{V, NS};
use serde_json::json;

pub const ID: &str = "C14";

const CTORS: [&str; 10] = ["int", "uint", "double", "string", "bytes", "bool", "timestamp", "duration", "dyn", "type"];

fn values(t: Tier) -> Vec<V> {
    let mut g = numeric_grid(t);
    g.extend([
        V::Bool(true),
        V::Bool(false),
        V::Null,
        V::Type("int".into()),
        V::list(&[]),
        V::list(&[V::Int(1)]),
        V::map(&[]),
        V::map(&[("k", V::Int(1))]),
        V::Bytes(vec![]),
        V::Bytes(vec![97, 98]),
        V::Bytes("é😀".as_bytes().to_vec()),
        V::Bytes(vec![0xff]),
        V::Bytes(vec![0xc3]),
        V::Bytes(vec![0xed, 0xa0, 0x80]),
        V::Bytes(vec![97, 0, 98]),
        V::Ts(0),
        V::Ts(-NS),
        V::Ts(1_700_000_000 * NS + 123_000_000),
        V::Ts(253_402_300_799 * NS),
        V::Dur(0),
        V::Dur(90 * NS),
        V::Dur(-1_500_000_000),
        V::Dur(3_600 * NS),
    ]);
    for s in string_grid(t) {
        g.push(V::Str(s));
    }
    g
}

fn string_grid(t: Tier) -> Vec<String> {
    let mut out: Vec<String> = Vec::new();
    for i in int_grid(t) {
        out.push(format!("{}", i));
    }
    for u in uint_grid(t) {
        out.push(format!("{}", u));
    }
    for d in dbl_grid(t) {
        out.push(format!("{}", d));
        out.push(format!("{:e}", d));
    }
    for s in [
        "", " ", "abc", "1.5", "1e3", "0x10", " 1", "1 ", "\t1", "1\n", "1_000", "1,000", "٣", "１", "--1", "+-1", "1-", "1u",
        "9223372036854775808", "-9223372036854775809", "18446744073709551616", "-0", "-1", "+1", "inf", "-inf", "NaN", "nan",
        "infinity", ".5", "5.", "1e", "e1", "1e400", "-1e400", "1e-400", "0.1", "true", "false", "TRUE", "True", "t", "f", "1", "0",
        "T", "yes", "é", "2023-04-20T12:00:00Z", "2023-04-20T12:00:00.123+02:00", "2023-04-20", "not a time",
        "Thu, 20 Apr 2023 12:00:00 +0000", "1s", "1h30m", "90s", "-5s", "1.5s", "1 day", "forever", "1x",
    ] {
        out.push(s.to_string());
    }
    out.sort();
    out.dedup();
    out
}

fn parse_int_strict(s: &str) -> Option<i128> {
    // canonical decimal rendering: optional '-', then ASCII digits only
    let (neg, digits) = match s.strip_prefix('-') {
        Some(r) => (true, r),
        None => (false, s),
    };
    if digits.is_empty() || digits.len() > 30 || !digits.bytes().all(|b| b.is_ascii_digit()) {
        return None;
    }
    let v: i128 = digits.parse().ok()?;
    Some(if neg { -v } else { v })
}

/// what the property fixes about `T(x)`
fn expect(ctor: &str, x: &V) -> Exp {
    use V::*;
    match (ctor, x) {
        ("int", Int(i)) => Exp::Val(Int(*i)),
        ("int", UInt(u)) => i64::try_from(*u).map(|i| Exp::Val(Int(i))).unwrap_or(Exp::Fail),
        ("int", Dbl(d)) => {
            if d.is_nan() {
                Exp::Unspec
            } else {
                Exp::Val(Int(*d as i64)) // truncation toward zero, saturating
            }
        }
        ("int", Bool(b)) => Exp::Val(Int(*b as i64)),
        ("int", Str(s)) => match parse_int_strict(s) {
            Some(v) => i64::try_from(v).map(|i| Exp::Val(Int(i))).unwrap_or(Exp::Fail),
            None => {
                if s.starts_with('+') && parse_int_strict(&s[1..]).is_some() {
                    Exp::Unspec // FromStr accepts a leading '+'
                } else {
                    Exp::Fail
                }
            }
        },
        ("int", Ts(_)) => Exp::Unspec,
        ("int", _) => Exp::Fail,

        ("uint", UInt(u)) => Exp::Val(UInt(*u)),
        ("uint", Int(i)) => u64::try_from(*i).map(|u| Exp::Val(UInt(u))).unwrap_or(Exp::Fail),
        ("uint", Dbl(d)) => {
            if d.is_nan() || *d < 0.0 {
                Exp::Unspec // "saturating" vs "negative to uint is an error"
            } else {
                Exp::Val(UInt(*d as u64))
            }
        }
        ("uint", Bool(b)) => Exp::Val(UInt(*b as u64)),
        ("uint", Str(s)) => match parse_int_strict(s) {
            Some(v) => {
                if s.starts_with('-') && v == 0 {
                    Exp::Unspec // "-0"
                } else {
                    u64::try_from(v).map(|u| Exp::Val(UInt(u))).unwrap_or(Exp::Fail)
                }
            }
            None => {
                if s.starts_with('+') && parse_int_strict(&s[1..]).is_some() {
                    Exp::Unspec
                } else {
                    Exp::Fail
                }
            }
        },
        ("uint", _) => Exp::Fail,

        ("double", Dbl(d)) => Exp::Val(Dbl(*d)),
        ("double", Int(i)) => Exp::Val(Dbl(*i as f64)),
        ("double", UInt(u)) => Exp::Val(Dbl(*u as f64)),
        ("double", Bool(b)) => Exp::Val(Dbl(if *b { 1.0 } else { 0.0 })),
        ("double", Str(s)) => {
            // demanded: plain decimal / exponent renderings parse to the nearest double; clearly
            // non-numeric text fails; forms Rust's FromStr happens to accept are not fixed
            let plain = {
                let b = s.strip_prefix('-').unwrap_or(s);
                !b.is_empty()
                    && b.bytes().all(|c| c.is_ascii_digit() || c == b'.' || c == b'e' || c == b'-')
                    && b.bytes().next().map(|c| c.is_ascii_digit()).unwrap_or(false)
                    && b.bytes().last().map(|c| c.is_ascii_digit()).unwrap_or(false)
                    && b.matches('.').count() <= 1
                    && b.matches('e').count() <= 1
            };
            if plain {
                match s.parse::<f64>() {
                    Ok(d) if d.is_finite() => Exp::Val(Dbl(d)),
                    _ => Exp::Unspec,
                }
            } else if s.parse::<f64>().is_ok() {
                Exp::Unspec
            } else {
                Exp::Fail
            }
        }
        ("double", _) => Exp::Fail,

        ("string", Int(i)) => Exp::Val(Str(format!("{}", i))),
        ("string", UInt(u)) => Exp::Val(Str(format!("{}", u))),
        ("string", Str(s)) => Exp::Val(Str(s.clone())),
        ("string", Bytes(b)) => match std::str::from_utf8(b) {
            Ok(s) => Exp::Val(Str(s.to_string())),
            Err(_) => Exp::Fail,
        },
        ("string", _) => Exp::Unspec, // doubles: round trip only; time: rendering not fixed; others undocumented

        ("bytes", Str(s)) => Exp::Val(Bytes(s.as_bytes().to_vec())),
        ("bytes", Bytes(b)) => Exp::Val(Bytes(b.clone())),
        ("bytes", _) => Exp::Unspec,

        ("bool", Bool(b)) => Exp::Val(Bool(*b)),
        ("bool", Str(s)) => match s.as_str() {
            "1" | "t" | "true" | "TRUE" | "True" => Exp::Val(Bool(true)),
            "0" | "f" | "false" | "FALSE" | "False" => Exp::Val(Bool(false)),
            _ => Exp::Val(Bool(!s.is_empty())),
        },
        ("bool", v) => Exp::Val(Bool(refmodel::truthy(v))),

        ("timestamp", Ts(t)) => Exp::Val(Ts(*t)),
        ("timestamp", Int(i)) => {
            // seconds since the epoch when inside chrono's range
            if (-8_334_601_228_800..=8_210_266_876_799).contains(i) {
                Exp::Val(Ts(*i as i128 * NS))
            } else {
                Exp::Fail
            }
        }
        ("timestamp", Str(s)) => match s.as_str() {
            "2023-04-20T12:00:00Z" => Exp::Val(Ts(1_681_992_000 * NS)),
            "2023-04-20T12:00:00.123+02:00" => Exp::Val(Ts(1_681_984_800 * NS + 123_000_000)),
            "Thu, 20 Apr 2023 12:00:00 +0000" => Exp::Unspec,
            "" | "abc" | "not a time" | "1.5" | "true" | "é" => Exp::Fail,
            _ => Exp::Unspec,
        },
        ("timestamp", UInt(_)) => Exp::Unspec,
        // a null argument is indistinguishable from a missing one in the overload
        // dispatch, so timestamp(null) reads the clock like timestamp(): argument
        // shapes are C15's subject
        ("timestamp", Null) => Exp::Unspec,
        ("timestamp", _) => Exp::Fail,

        ("duration", Dur(d)) => Exp::Val(Dur(*d)),
        ("duration", Int(i)) => {
            if (i.unsigned_abs() as u128) <= (i64::MAX as u128) / 1000 {
                Exp::Val(Dur(*i as i128 * NS))
            } else {
                Exp::Fail
            }
        }
        ("duration", Str(s)) => match s.as_str() {
            "1s" => Exp::Val(Dur(NS)),
            "90s" => Exp::Val(Dur(90 * NS)),
            "1h30m" => Exp::Val(Dur(5400 * NS)),
            "" | "abc" | "forever" | "not a time" | "true" | "é" => Exp::Fail,
            _ => Exp::Unspec,
        },
        ("duration", _) => Exp::Fail,

        ("dyn", v) => Exp::Val(v.clone()),
        ("type", v) => Exp::Val(Type(v.type_name().to_string())),
        _ => Exp::Unspec,
    }
}

fn result_type(ctor: &str) -> Option<&'static str> {
    Some(match ctor {
        "int" => "int",
        "uint" => "uint",
        "double" => "float",
        "string" => "string",
        "bytes" => "bytes",
        "bool" => "bool",
        "timestamp" => "timestamp",
        "duration" => "duration",
        "type" => "type",
        _ => return None,
    })
}

pub struct Conv {
    vals: Vec<V>,
}
impl Conv {
    pub fn new(t: Tier) -> Conv {
        Conv { vals: values(t) }
    }
    pub fn size(&self) -> u64 {
        (self.vals.len() * CTORS.len()) as u64
    }
    pub fn run(&self, idx: u64, acc: &mut Acc) {
        let x = &self.vals[idx as usize / CTORS.len()];
        let ctor = CTORS[idx as usize % CTORS.len()];
        let exp = expect(ctor, x);
        let site = format!("{}({})", ctor, x.type_name());
        let mut forms: Vec<(&str, String, Vec<(&str, V)>)> = vec![("bound", format!("{}(x)", ctor), vec![("x", x.clone())])];
        if let Some(l) = x.src() {
            forms.push(("literal", format!("{}({})", ctor, l), vec![]));
        }
        let mut first: Option<Outcome> = None;
        for (form, src, binds) in forms {
            let got = real::eval(&src, &binds);
            acc.eval();
            acc.class(&got.class());
            let case = json!({"src": src, "x": x.show(), "form": form});
            if got.is_panic() || got.is_compile_fail() {
                acc.violation(&format!("{} panic-or-compile-error", site), case.clone(), exp.show(), got.show());
            }
            match &exp {
                Exp::Val(v) => {
                    if !got.value().map(|g| g.same(v)).unwrap_or(false) {
                        let k = if got.is_fail() { "rejects-valid-input" } else { "wrong-value" };
                        acc.violation(&format!("{} {}", site, k), case.clone(), exp.show(), got.show());
                    }
                }
                Exp::Fail => {
                    if !got.is_fail() {
                        acc.violation(&format!("{} accepts-unrepresentable-input", site), case.clone(), exp.show(), got.show());
                    }
                }
                Exp::Unspec => {}
            }
            // type(T(x)) == T whenever T(x) succeeds
            if let (Some(rt), Some(v)) = (result_type(ctor), got.value()) {
                if v.type_name() != rt {
                    acc.violation(&format!("{} result-has-wrong-type", site), case.clone(), format!("a value of type {}", rt), got.show());
                }
            }
            match &first {
                None => first = Some(got),
                Some(f) => {
                    let clock = ctor == "timestamp" && matches!(x, V::Null);
                    if !clock && !f.agrees_class(&got) {
                        acc.violation(&format!("{} literal-vs-bound-differ", site), case, f.show(), got.show());
                    }
                }
            }
        }
        // the law stated inside CEL: type(T(x)) == T, dyn(x) == x
        if let Some(f) = &first {
            if f.is_value() {
                let law = match ctor {
                    "dyn" => Some("type(dyn(x)) == type(x)".to_string()),
                    "double" => Some("type(double(x)) == double && type(double(x)) == float".to_string()),
                    c => Some(format!("type({}(x)) == {}", c, c)),
                };
                if let Some(law) = law {
                    let got = real::eval(&law, &[("x", x.clone())]);
                    acc.eval();
                    if !matches!(got.value(), Some(V::Bool(true))) {
                        acc.violation(&format!("{} type-law", site), json!({"src": law, "x": x.show()}), "true".into(), got.show());
                    }
                }
            }
        }
        if !matches!(exp, Exp::Unspec) {
            acc.nontrivial(&idx);
        }
        if acc.wants_sample() {
            acc.sample(json!({"src": format!("{}(x)", ctor), "x": x.show(), "expected": exp.show()}));
        }
    }
}

// ---- round trips, evaluated inside CEL ------------------------------------------

pub struct RoundTrips {
    cases: Vec<(&'static str, &'static str, V)>,
}
impl RoundTrips {
    pub fn new(t: Tier) -> RoundTrips {
        let mut cases = Vec::new();
        for i in int_grid(Tier::Thorough) {
            cases.push(("int(string(x)) == x", "int-string", V::Int(i)));
            cases.push(("int(double(x)) == x", "int-double-int", V::Int(i)));
            cases.push(("string(x) == f'{x}'", "string-vs-fstring", V::Int(i)));
        }
        for u in uint_grid(Tier::Thorough) {
            cases.push(("uint(string(x)) == x", "uint-string", V::UInt(u)));
            cases.push(("uint(int(x)) == x", "uint-int-uint", V::UInt(u)));
        }
        let mut dbls = dbl_grid(t);
        // every exponent with two mantissas: doubles whose shortest decimal form is long
        for e in (0..=2046u64).step_by(t.pick(16, 1)) {
            for m in [0u64, 0x000a_aaaa_aaaa_aaab] {
                dbls.push(f64::from_bits((e << 52) | m));
                dbls.push(-f64::from_bits((e << 52) | m));
            }
        }
        for d in dbls {
            if d.is_finite() {
                cases.push(("double(string(x)) == x", "double-string", V::Dbl(d)));
            }
        }
        for s in ["", "a", "é", "aé😀", "a'b\"c\\", "\0", "{x}", "\u{ffff}", "line\nbreak", "\u{feff}", "\u{feff}a", "a\u{feff}", "\u{feff}\u{feff}é", "\u{fffe}", "\u{200b}a"] {
            cases.push(("string(bytes(x)) == x", "string-bytes", V::s(s)));
            cases.push(("bytes(string(bytes(x))) == bytes(x)", "bytes-string-bytes", V::s(s)));
            cases.push(("size(bytes(x)) == size(x)", "bytes-size", V::s(s)));
        }
        // int(t) is the second that holds t: before the epoch too (floor, not truncation)
        for ns in [500_000_000i128, -500_000_000, -250_000_000, -1_750_000_000, 1_500_000_000, -1, 1, -86_400 * NS - 1_000_000, -NS, NS, 0, 1_700_000_000 * NS + 999_999_999, -62_135_596_800 * NS + 1] {
            cases.push(("timestamp(int(x)) <= x && x - timestamp(int(x)) < duration('1s')", "int-of-timestamp-is-the-second-that-holds-it", V::Ts(ns)));
            cases.push(("timestamp(int(x)).getSeconds() == x.getSeconds()", "int-of-timestamp-agrees-with-getSeconds", V::Ts(ns)));
        }
        RoundTrips { cases }
    }
    pub fn size(&self) -> u64 {
        self.cases.len() as u64
    }
    pub fn run(&self, idx: u64, acc: &mut Acc) {
        let (law, site, x) = &self.cases[idx as usize];
        // int(double(x)) == x only holds where the double is exact
        if *site == "int-double-int" {
            if let V::Int(i) = x {
                if (*i as f64) as i128 != *i as i128 || *i == i64::MAX {
                    return;
                }
            }
        }
        if *site == "uint-int-uint" {
            if let V::UInt(u) = x {
                if *u > i64::MAX as u64 {
                    // int(x) must fail here, so the whole law fails
                    let got = real::eval(law, &[("x", x.clone())]);
                    acc.eval();
                    acc.nontrivial(&(site, idx));
                    if !got.is_fail() {
                        acc.violation("uint-int-uint accepts-unrepresentable-input", json!({"src": law, "x": x.show()}), "Fail".into(), got.show());
                    }
                    return;
                }
            }
        }
        let mut forms = vec![("bound", law.to_string(), vec![("x", x.clone())])];
        if let Some(l) = x.src() {
            if !law.contains("f'") {
                forms.push(("literal", law.replace('x', &l), vec![]));
            }
        }
        for (form, src, binds) in forms {
            let got = real::eval(&src, &binds);
            acc.eval();
            acc.class(&got.class());
            if !matches!(got.value(), Some(V::Bool(true))) {
                acc.violation(&format!("round-trip {}", site), json!({"src": src, "x": x.show(), "form": form}), "true".into(), got.show());
            }
        }
        acc.nontrivial(&(site, idx));
        if acc.wants_sample() {
            acc.sample(json!({"law": law, "x": x.show()}));
        }
    }
}

// ---- texts of instants: every accepted format denotes the instant it spells --------------------

fn instant_texts() -> Vec<(String, i64, &'static str)> {
    use chrono::{FixedOffset, TimeZone};
    let mut v = Vec::new();
    for secs in [0i64, 1_057_049_557, 1_700_000_000, -1, 951_782_400, 253_402_300_799, -2_208_988_800] {
        for off in [0i32, 2 * 3600, -5 * 3600, 5 * 3600 + 1800, -(9 * 3600 + 1800), 14 * 3600, -12 * 3600, 60] {
            let tz = match FixedOffset::east_opt(off) {
                Some(t) => t,
                None => continue,
            };
            let dt = match tz.timestamp_opt(secs, 0).single() {
                Some(d) => d,
                None => continue,
            };
            v.push((dt.to_rfc3339(), secs, "rfc3339"));
            v.push((dt.to_rfc3339().replace('T', "t"), secs, "rfc3339-lower-case-t"));
            if dt.format("%Y").to_string().len() == 4 && secs >= -2_208_988_800 {
                v.push((dt.to_rfc2822(), secs, "rfc2822"));
            }
            if off == 0 {
                v.push((dt.format("%Y-%m-%dT%H:%M:%SZ").to_string(), secs, "rfc3339-z"));
            }
        }
    }
    v
}

fn run_instant_text(idx: u64, acc: &mut Acc) {
    let texts = instant_texts();
    let (text, secs, fmt) = &texts[idx as usize];
    let want = V::Ts(*secs as i128 * NS);
    for (form, src, binds) in [
        ("bound", "timestamp(x)".to_string(), vec![("x", V::s(text))]),
        ("literal", format!("timestamp({})", crate::val::str_lit(text)), vec![]),
        ("compared", "timestamp(x) == timestamp(y)".to_string(), vec![("x", V::s(text)), ("y", V::Int(*secs))]),
    ] {
        let got = real::eval(&src, &binds);
        acc.eval();
        acc.class(&got.class());
        // a spelling the implementation does not accept at all is not a wrong conversion
        if got.is_fail() {
            acc.count(&format!("instant texts not accepted ({})", fmt), 1);
            continue;
        }
        let ok = if form == "compared" { matches!(got.value(), Some(V::Bool(true))) } else { got.value().map(|g| g.same(&want)).unwrap_or(false) };
        if !ok {
            acc.violation(&format!("timestamp(text) {} denotes-another-instant", fmt), json!({"src": src, "text": text, "seconds": secs, "form": form}), want.show(), got.show());
        } else {
            acc.nontrivial(&(idx, form));
        }
    }
}

// ---- string() is injective: a representation determines the value ---------------------------

fn injective_grids() -> Vec<(&'static str, Vec<V>)> {
    let mut durs = Vec::new();
    for ns in [0i128, 1, 999, 1_000, 1_500, 999_999, 1_000_000, 1_500_000, 999_999_999, NS, NS + 1, 90 * NS, 3600 * NS, 86_400 * NS + 1_000] {
        durs.push(V::Dur(ns));
        if ns != 0 {
            durs.push(V::Dur(-ns));
        }
    }
    let mut tss = Vec::new();
    for s in [0i128, 1_700_000_000, -1, 253_402_300_799] {
        for n in [0i128, 1, 1_000, 1_500_000, 123_456_789, 999_999_999] {
            tss.push(V::Ts(s * NS + n));
        }
    }
    vec![
        ("duration", durs),
        ("timestamp", tss),
        ("int", int_grid(Tier::Quick).into_iter().map(V::Int).collect()),
        ("uint", uint_grid(Tier::Quick).into_iter().map(V::UInt).collect()),
        ("double", dbl_grid(Tier::Quick).into_iter().filter(|d| !d.is_nan()).map(V::Dbl).collect()),
    ]
}

fn run_injective(idx: u64, acc: &mut Acc) {
    let grids = injective_grids();
    let (name, g) = &grids[idx as usize];
    let mut seen: Vec<(String, &V)> = Vec::new();
    for v in g {
        let got = real::eval("string(x)", &[("x", v.clone())]);
        acc.eval();
        acc.class(&got.class());
        let text = match got.value() {
            Some(V::Str(s)) => s,
            _ => {
                // string() of this type is not fixed by the statement when it fails; a panic is
                if got.is_panic() {
                    acc.violation(&format!("string({}) panic", name), json!({"x": v.show()}), "a string or an error".into(), got.show());
                }
                continue;
            }
        };
        for (t, w) in &seen {
            // -0.0 and 0.0 are different doubles but the same number: not demanded to differ
            let same_number = matches!((v, w), (V::Dbl(a), V::Dbl(b)) if a == b);
            if *t == text && !w.same(v) && !same_number {
                acc.violation(
                    &format!("string({}) maps-different-values-to-the-same-text", name),
                    json!({"first": w.show(), "second": v.show(), "text": text}),
                    "distinct values have distinct renderings".into(),
                    format!("both render as {:?}", text),
                );
            }
        }
        seen.push((text, v));
    }
    acc.nontrivial(&("injective", idx));
    if acc.wants_sample() {
        acc.sample(json!({"type": name, "renderings": seen.iter().take(6).map(|(t, v)| json!([v.show(), t])).collect::<Vec<_>>()}));
    }
}

// ---- f-strings ---------------------------------------------------------------------

/// (text inside the f-string, equivalent concatenation term, embedded?)
fn segments() -> Vec<(&'static str, &'static str)> {
    vec![
        ("a", "'a'"),
        ("{{", "'{'"),
        ("}}", "'}'"),
        ("Q", "Q"), // replaced by the other quote character
        (" é ", "' é '"),
        ("{i}", "string(i)"),
        ("{u}", "string(u)"),
        ("{d}", "string(d)"),
        ("{s}", "string(s)"),
        ("{b}", "string(b)"),
        ("{t}", "string(t)"),
        ("{r}", "string(r)"),
        ("{i + 1}", "string(i + 1)"),
        ("{s + 'x'}", "string(s + 'x')"),
        ("{l}", "string(l)"),
        ("{m}", "string(m)"),
        ("{n}", "string(n)"),
        ("{o}", "string(o)"),
        ("{i / z}", "string(i / z)"),
        ("{unbound}", "string(unbound)"),
        // embedded compile-time constants of every type (folded by the compiler)
        ("{7 - 14}", "string(7 - 14)"),
        ("{18446744073709551615u}", "string(18446744073709551615u)"),
        ("{0.1}", "string(0.1)"),
        ("{'q'}", "string('q')"),
        ("{b'hi'}", "string(b'hi')"),
        ("{bytes('hé')}", "string(bytes('hé'))"),
        ("{timestamp(1700000000)}", "string(timestamp(1700000000))"),
        ("{duration(90, 0)}", "string(duration(90, 0))"),
        ("{duration('1h30m')}", "string(duration('1h30m'))"),
        ("{[1]}", "string([1])"),
        ("{null}", "string(null)"),
        ("{true}", "string(true)"),
        ("{1 / 0}", "string(1 / 0)"),
        ("{int}", "string(int)"),
        // string literals with escaped quotes inside the embedded expression
        ("{'q\\'q'}", "string('q\\'q')"),
        ("{s + '\\''}", "string(s + '\\'')"),
        ("{'\\'' + 'a\\'b\\'c'}", "string('\\'' + 'a\\'b\\'c')"),
    ]
}

pub struct FStrings {
    segs: Vec<(&'static str, &'static str)>,
    maxlen: u32,
}
impl FStrings {
    pub fn new(t: Tier) -> FStrings {
        FStrings { segs: segments(), maxlen: t.pick(2, 4) }
    }
    pub fn size(&self) -> u64 {
        (1..=self.maxlen).map(|l| (self.segs.len() as u64).pow(l)).sum::<u64>() * 2
    }
    pub fn run(&self, idx: u64, acc: &mut Acc) {
        let quote = if idx % 2 == 0 { '\'' } else { '"' };
        let other = if quote == '\'' { "\"" } else { "'" };
        let mut i = idx / 2;
        let k = self.segs.len() as u64;
        let mut len = 1;
        for l in 1..=self.maxlen {
            let c = k.pow(l);
            if i < c {
                len = l;
                break;
            }
            i -= c;
        }
        let ds = unrank(i, &vec![k; len as usize]);
        let mut body = String::new();
        let mut terms: Vec<String> = Vec::new();
        for d in &ds {
            let (inside, term) = self.segs[*d as usize];
            if inside == "Q" {
                body.push_str(other);
                terms.push(if other == "'" { "\"'\"".to_string() } else { "'\"'".to_string() });
            } else if inside.contains("\\'") && quote == '\'' {
                // an escaped quote inside the embedded expression: only generated for the other
                // delimiter (swapping the quotes would change the spelled value)
                body.push('a');
                terms.push("'a'".to_string());
            } else if inside.contains('\'') && quote == '\'' {
                // an embedded expression with a string literal: use the other quote inside
                body.push_str(&inside.replace('\'', "\""));
                terms.push(term.to_string());
            } else {
                body.push_str(inside);
                terms.push(term.to_string());
            }
        }
        let fsrc = format!("f{}{}{}", quote, body, quote);
        let csrc = terms.join(" + ");
        let binds = vec![
            ("i", V::Int(-7)),
            ("u", V::UInt(u64::MAX)),
            ("d", V::Dbl(0.1)),
            ("s", V::s("s'\"{}é")),
            ("b", V::Bytes(vec![104, 105])),
            ("t", V::Ts(1_700_000_000 * NS)),
            ("r", V::Dur(90 * NS)),
            ("l", V::list(&[V::Int(1)])),
            ("m", V::map(&[("k", V::Int(1))])),
            ("n", V::Null),
            ("o", V::Bool(true)),
            ("z", V::Int(0)),
        ];
        let f = real::eval(&fsrc, &binds);
        let c = real::eval(&csrc, &binds);
        acc.evals(2);
        acc.class(&f.class());
        let case = json!({"fstring": fsrc, "concatenation": csrc});
        if f.is_panic() || f.is_compile_fail() {
            acc.violation("fstring panic-or-compile-error", case.clone(), c.show(), f.show());
        } else if !f.agrees_class(&c) {
            acc.violation("fstring differs-from-concatenation", case, c.show(), f.show());
        }
        acc.nontrivial(&idx);
        if acc.wants_sample() {
            acc.sample(json!({"fstring": fsrc, "concatenation": csrc, "observed": f.show()}));
        }
    }
}

pub fn replay_families(t: Tier) -> Vec<Family<'static>> {
    let c: &'static Conv = Box::leak(Box::new(Conv::new(t)));
    let r: &'static RoundTrips = Box::leak(Box::new(RoundTrips::new(t)));
    let f: &'static FStrings = Box::leak(Box::new(FStrings::new(t)));
    vec![
        Family::new("conversions", c.size(), move |i, a| c.run(i, a)),
        Family::new("roundtrips", r.size(), move |i, a| r.run(i, a)),
        Family::new("fstrings", f.size(), move |i, a| f.run(i, a)),
        Family::new("string-injective", injective_grids().len() as u64, run_injective),
        Family::new("instant-texts", instant_texts().len() as u64, run_instant_text),
    ]
}

pub fn run(t: Tier) -> i32 {
    let mut rep = Report::new(ID, t, "exploration");
    rep.rule = "conversions: every value of the numeric boundary grid, a string grid (decimal and exponent renderings of every grid number, signs, blanks, separators, non-ASCII digits, out-of-range digit strings, bool literals, timestamps, durations), bytes (valid and invalid UTF-8), and one value of every other type x the 10 constructors, bound and literal, against the reference conversion (Unspecified where the property does not fix the answer) plus type(T(x)) == T; roundtrips: int(string(i))==i, uint(string(u))==u, double(string(d))==d over the dense grids and all exponents, string(bytes(s))==s (incl. texts with a byte order mark at the start, inside, twice), evaluated inside CEL; int(timestamp) is the second that holds the instant, also before the epoch (two laws over 13 instants with sub-second parts); instant-texts: 7 instants x 8 zone offsets spelled by chrono as RFC 3339 (upper and lower case t, Z form) and RFC 2822: timestamp(text) is that instant, bound, literal and compared with timestamp(seconds); string-injective: string() over grids of durations and timestamps down to one nanosecond, ints, uints and doubles never maps two different values to the same text; fstrings: all sequences of 1..N segments over 37 segment kinds (literal text, doubled braces, quotes, embedded variables and embedded compile-time constants of every type)
 x both quotes compared with the concatenation of literal parts and string(e) evaluated by the implementation. Non-trivial = outcome fixed by the property; distinct by index".to_string();
    for f in replay_families(t) {
        rep.run_family(f);
    }
    rep.assumptions = vec![
        "NaN/negative double to integer, '+1', 'inf', '.5', string() of bool/list/map/null/double/time and bytes() of non-text are not fixed by the property (totality only)".into(),
        "dyn(x) is the identity (type(dyn(x)) == type(x)), as documented".into(),
    ];
    rep.finish()
}
