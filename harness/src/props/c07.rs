//! C07 — comprehension macros equal their defining folds; loop variables are lexical;
//! maps are ranged over in one fixed key order.
use crate::engine::*;
use crate::real::{self, Outcome};
use crate::refmodel;
use crate::val::{str_lit, V};
use rscel::{BindContext, CelContext, CelValue};
use serde_json::json;
use std::cell::RefCell;
use std::collections::{BTreeMap, HashMap};

pub const ID: &str = "C07";

thread_local! {
    static LOG: RefCell<Vec<(char, i64)>> = const { RefCell::new(Vec::new()) };
}
fn int_arg(args: &[CelValue], i: usize) -> i64 {
    match args.get(i) {
        Some(CelValue::Int(i)) => *i,
        _ => -999,
    }
}
fn p_impl(_t: CelValue, a: Vec<CelValue>) -> CelValue {
    let x = int_arg(&a, 0);
    LOG.with(|l| l.borrow_mut().push(('p', x)));
    CelValue::Bool(x > 0)
}
fn q_impl(_t: CelValue, a: Vec<CelValue>) -> CelValue {
    let x = int_arg(&a, 0);
    LOG.with(|l| l.borrow_mut().push(('q', x)));
    CelValue::Int(x + 10)
}
fn r_impl(_t: CelValue, a: Vec<CelValue>) -> CelValue {
    let acc = int_arg(&a, 0);
    let x = int_arg(&a, 1);
    LOG.with(|l| l.borrow_mut().push(('r', x)));
    CelValue::Int(acc.wrapping_mul(3).wrapping_add(x) % 1_000_003)
}
fn take_log() -> Vec<(char, i64)> {
    LOG.with(|l| std::mem::take(&mut *l.borrow_mut()))
}

type R = Result<V, ()>;

#[derive(Clone, Copy, Debug, PartialEq, Eq, Hash)]
enum P {
    Gt0,
    Itself,
    EqOuter,
    CallP,
    FailAt1,
    InnerSameName,
    InnerReadsOuterLoopVar,
    StoredProgram,
    Unbound,
    CallPAndLt2,
    Nested2,
}
const PREDS: [P; 11] = [
    P::Gt0,
    P::Itself,
    P::EqOuter,
    P::CallP,
    P::FailAt1,
    P::InnerSameName,
    P::InnerReadsOuterLoopVar,
    P::StoredProgram,
    P::Unbound,
    P::CallPAndLt2,
    P::Nested2,
];
impl P {
    fn src(&self) -> &'static str {
        match self {
            P::Gt0 => "x > 0",
            P::Itself => "x",
            P::EqOuter => "x == y",
            P::CallP => "p(x)",
            P::FailAt1 => "1/(x-1) > 0",
            P::InnerSameName => "[x].exists(x, x > 0)",
            P::InnerReadsOuterLoopVar => "[1,2].exists(y, y == x)",
            P::StoredProgram => "k",
            P::Unbound => "x + u > 0",
            P::CallPAndLt2 => "p(x) && x < 2",
            P::Nested2 => "[0].all(z, [0].all(w, x == y && k))",
        }
    }
    fn eval(&self, x: i64, log: &mut Vec<(char, i64)>) -> R {
        Ok(match self {
            P::Gt0 | P::InnerSameName | P::StoredProgram => V::Bool(x > 0),
            P::Itself => V::Int(x),
            P::EqOuter => V::Bool(x == 1),
            P::CallP => {
                log.push(('p', x));
                V::Bool(x > 0)
            }
            P::FailAt1 => {
                if x == 1 {
                    return Err(());
                }
                V::Bool(1 / (x - 1) > 0)
            }
            P::InnerReadsOuterLoopVar => V::Bool(x == 1 || x == 2),
            P::Unbound => return Err(()),
            P::CallPAndLt2 => {
                log.push(('p', x));
                V::Bool(x > 0 && x < 2)
            }
            P::Nested2 => V::Bool(x == 1 && x > 0),
        })
    }
}

#[derive(Clone, Copy, Debug, PartialEq, Eq, Hash)]
enum E {
    Double,
    CallQ,
    PairWithOuter,
    FailAt1,
}
const EXPRS: [E; 4] = [E::Double, E::CallQ, E::PairWithOuter, E::FailAt1];
impl E {
    fn src(&self) -> &'static str {
        match self {
            E::Double => "x * 2",
            E::CallQ => "q(x)",
            E::PairWithOuter => "[x, y]",
            E::FailAt1 => "6/(x-1)",
        }
    }
    fn eval(&self, x: i64, log: &mut Vec<(char, i64)>) -> R {
        Ok(match self {
            E::Double => V::Int(x * 2),
            E::CallQ => {
                log.push(('q', x));
                V::Int(x + 10)
            }
            E::PairWithOuter => V::list(&[V::Int(x), V::Int(1)]),
            E::FailAt1 => {
                if x == 1 {
                    return Err(());
                }
                V::Int(6 / (x - 1))
            }
        })
    }
}

#[derive(Clone, Copy, Debug, PartialEq, Eq, Hash)]
enum Red {
    Sum,
    Collect,
    CallR,
    FailAt1,
    SeedFails,
    SeedReadsOuter,
}
const REDS: [Red; 6] = [Red::Sum, Red::Collect, Red::CallR, Red::FailAt1, Red::SeedFails, Red::SeedReadsOuter];

#[derive(Clone, Copy, Debug, PartialEq, Eq, Hash)]
enum M {
    All(P),
    Exists(P),
    ExistsOne(P),
    Filter(P),
    Map(E),
    Map3(P, E),
    Reduce(Red),
}

fn macro_forms() -> Vec<M> {
    let mut v = Vec::new();
    for p in PREDS {
        v.push(M::All(p));
        v.push(M::Exists(p));
        v.push(M::ExistsOne(p));
        v.push(M::Filter(p));
    }
    for e in EXPRS {
        v.push(M::Map(e));
    }
    for p in [P::Gt0, P::CallP, P::FailAt1, P::Unbound, P::Itself] {
        for e in EXPRS {
            v.push(M::Map3(p, e));
        }
    }
    for r in REDS {
        v.push(M::Reduce(r));
    }
    v
}

impl M {
    fn name(&self) -> &'static str {
        match self {
            M::All(_) => "all",
            M::Exists(_) => "exists",
            M::ExistsOne(_) => "exists_one",
            M::Filter(_) => "filter",
            M::Map(_) => "map/2",
            M::Map3(..) => "map/3",
            M::Reduce(_) => "reduce",
        }
    }
    fn src(&self, l: &str) -> String {
        match self {
            M::All(p) => format!("{}.all(x, {})", l, p.src()),
            M::Exists(p) => format!("{}.exists(x, {})", l, p.src()),
            M::ExistsOne(p) => format!("{}.exists_one(x, {})", l, p.src()),
            M::Filter(p) => format!("{}.filter(x, {})", l, p.src()),
            M::Map(e) => format!("{}.map(x, {})", l, e.src()),
            M::Map3(p, e) => format!("{}.map(x, {}, {})", l, p.src(), e.src()),
            M::Reduce(r) => match r {
                Red::Sum => format!("{}.reduce(acc, x, acc + x, 0)", l),
                Red::Collect => format!("{}.reduce(acc, x, acc + [x], [])", l),
                Red::CallR => format!("{}.reduce(acc, x, r(acc, x), 0)", l),
                Red::FailAt1 => format!("{}.reduce(acc, x, acc + 6/(x-1), 0)", l),
                Red::SeedFails => format!("{}.reduce(acc, x, acc + x, 1/0)", l),
                Red::SeedReadsOuter => format!("{}.reduce(acc, x, acc + x, y)", l),
            },
        }
    }
    /// the defining fold
    fn eval(&self, l: &[i64], log: &mut Vec<(char, i64)>) -> R {
        match self {
            M::All(p) => {
                for x in l {
                    if !refmodel::truthy(&p.eval(*x, log)?) {
                        return Ok(V::Bool(false));
                    }
                }
                Ok(V::Bool(true))
            }
            M::Exists(p) => {
                for x in l {
                    if refmodel::truthy(&p.eval(*x, log)?) {
                        return Ok(V::Bool(true));
                    }
                }
                Ok(V::Bool(false))
            }
            M::ExistsOne(p) => {
                let mut n = 0;
                for x in l {
                    if refmodel::truthy(&p.eval(*x, log)?) {
                        n += 1;
                        if n > 1 {
                            return Ok(V::Bool(false));
                        }
                    }
                }
                Ok(V::Bool(n == 1))
            }
            M::Filter(p) => {
                let mut out = Vec::new();
                for x in l {
                    if refmodel::truthy(&p.eval(*x, log)?) {
                        out.push(V::Int(*x));
                    }
                }
                Ok(V::List(out))
            }
            M::Map(e) => {
                let mut out = Vec::new();
                for x in l {
                    out.push(e.eval(*x, log)?);
                }
                Ok(V::List(out))
            }
            M::Map3(p, e) => {
                let mut out = Vec::new();
                for x in l {
                    if refmodel::truthy(&p.eval(*x, log)?) {
                        out.push(e.eval(*x, log)?);
                    }
                }
                Ok(V::List(out))
            }
            M::Reduce(r) => match r {
                Red::Sum => Ok(V::Int(l.iter().sum())),
                Red::Collect => Ok(V::List(l.iter().map(|x| V::Int(*x)).collect())),
                Red::CallR => {
                    let mut acc = 0i64;
                    for x in l {
                        log.push(('r', *x));
                        acc = (acc.wrapping_mul(3).wrapping_add(*x)) % 1_000_003;
                    }
                    Ok(V::Int(acc))
                }
                Red::FailAt1 => {
                    let mut acc = 0i64;
                    for x in l {
                        if *x == 1 {
                            return Err(());
                        }
                        acc += 6 / (x - 1);
                    }
                    Ok(V::Int(acc))
                }
                Red::SeedFails => Err(()),
                Red::SeedReadsOuter => Ok(V::Int(1 + l.iter().sum::<i64>())),
            },
        }
    }
}

#[derive(Clone, Copy, Debug, PartialEq, Eq, Hash)]
enum Wrap {
    Plain,
    /// `(M == M) ? x : -1`: the loop variable name read after the macro
    After,
    /// `x == 100 ? M : M`: read before it
    Before,
}
const WRAPS: [Wrap; 3] = [Wrap::Plain, Wrap::After, Wrap::Before];

fn lists(t: Tier) -> Vec<Vec<i64>> {
    let mut out: Vec<Vec<i64>> = Vec::new();
    // all lists over {0,1,2}
    let maxa = t.pick(5, 6);
    let mut last: Vec<Vec<i64>> = vec![vec![]];
    out.push(vec![]);
    for _ in 0..maxa {
        let mut next = Vec::new();
        for l in &last {
            for e in [0i64, 1, 2] {
                let mut n = l.clone();
                n.push(e);
                next.push(n);
            }
        }
        out.extend(next.iter().cloned());
        last = next;
    }
    // all 0/1 lists of the next lengths
    let (lo, hi) = (maxa + 1, t.pick(8, 10));
    for len in lo..=hi {
        for bits in 0u32..(1 << len) {
            out.push((0..len).map(|i| ((bits >> i) & 1) as i64).collect());
        }
    }
    // long lists (beyond the call-depth limit of 32) with at most one (quick) / two (thorough) 1s
    let lens: Vec<usize> = match t {
        Tier::Quick => vec![16, 31, 32, 33, 34, 48, 64],
        Tier::Thorough => (11..=64).collect(),
    };
    for len in lens {
        out.push(vec![0; len]);
        for i in 0..len {
            let mut l = vec![0; len];
            l[i] = 1;
            out.push(l.clone());
            if t == Tier::Thorough {
                for j in (i + 1)..len {
                    let mut l2 = l.clone();
                    l2[j] = 1;
                    out.push(l2);
                }
            }
        }
    }
    out
}

pub struct Space {
    lists: Vec<Vec<i64>>,
    forms: Vec<M>,
}

impl Space {
    pub fn new(t: Tier) -> Space {
        Space { lists: lists(t), forms: macro_forms() }
    }
    fn size(&self) -> u64 {
        (self.lists.len() * self.forms.len()) as u64
    }

    fn run(&self, idx: u64, acc: &mut Acc) {
        let nf = self.forms.len() as u64;
        let l = &self.lists[(idx / nf) as usize];
        let m = self.forms[(idx % nf) as usize];
        let mut exp_log = Vec::new();
        let exp = m.eval(l, &mut exp_log);
        let lv = V::List(l.iter().map(|x| V::Int(*x)).collect());
        for lit in [true, false] {
            // long literal lists add nothing over the bound form except compile time; keep <= 34
            if lit && l.len() > 34 {
                continue;
            }
            for outer in [false, true] {
                for wrap in WRAPS {
                    if wrap != Wrap::Plain && l.len() > 8 {
                        continue;
                    }
                    let ls = if lit { lv.lit().unwrap() } else { "l".to_string() };
                    let ms = m.src(&ls);
                    let src = match wrap {
                        Wrap::Plain => ms,
                        Wrap::After => format!("({} == {}) ? x : -1", ms, ms),
                        Wrap::Before => format!("x == 100 ? {} : {}", ms, ms),
                    };
                    let mut b = BindContext::new();
                    b.bind_func("p", &p_impl);
                    b.bind_func("q", &q_impl);
                    b.bind_func("r", &r_impl);
                    b.bind_param("y", CelValue::Int(1));
                    if !lit {
                        b.bind_param("l", lv.to_cel());
                    }
                    if outer {
                        b.bind_param("x", CelValue::Int(100));
                    }
                    let want: R = match (wrap, outer) {
                        (Wrap::Plain, _) => exp.clone(),
                        (_, false) => Err(()),
                        (Wrap::After, true) => exp.clone().map(|_| V::Int(100)),
                        (Wrap::Before, true) => exp.clone(),
                    };
                    // the call log is only fixed when the macro itself is evaluated: with an unbound
                    // trailing/leading `x` the whole list fails, but the macro still runs (or not) -
                    // the property does not say, so the log is compared for Plain and outer-bound only
                    let log_fixed = wrap == Wrap::Plain || (outer && wrap == Wrap::Before);

                    let mut ctx = CelContext::new();
                    let got = match real::guarded("compile", || ctx.add_program_str("k", "x > 0").and_then(|_| ctx.add_program_str("main", &src))) {
                        Ok(Ok(())) => {
                            take_log();
                            real::exec_in(&mut ctx, "main", &b)
                        }
                        Ok(Err(e)) => Outcome::CompileErr(real::ErrKind::of(&e), format!("{}", e)),
                        Err(o) => o,
                    };
                    let got_log = take_log();
                    acc.eval();
                    acc.class(&got.class());
                    acc.nontrivial(&(idx, lit, outer, wrap));
                    let site = format!("{} {}", m.name(), match m {
                        M::All(p) | M::Exists(p) | M::ExistsOne(p) | M::Filter(p) => format!("{:?}", p),
                        M::Map(e) => format!("{:?}", e),
                        M::Map3(p, e) => format!("{:?}/{:?}", p, e),
                        M::Reduce(r) => format!("{:?}", r),
                    });
                    let ctxs = format!("{}{}{}", if lit { "literal-list" } else { "bound-list" }, if outer { " outer-x-bound" } else { "" }, match wrap {
                        Wrap::Plain => "",
                        Wrap::After => " x-read-after",
                        Wrap::Before => " x-read-before",
                    });
                    let case = || json!({"src": src, "list": format!("{:?}", l), "outer_x": outer, "bindings": "y=1; k := `x > 0`; p(x) records x, returns x>0; q(x) records, returns x+10; r(acc,x) records x"});
                    let kind = match (&want, &got) {
                        (_, Outcome::Panic { .. }) => Some("panic"),
                        (_, o) if o.is_compile_fail() => Some("compile-error"),
                        (Err(()), Outcome::Fail(..)) => None,
                        (Err(()), _) => Some("value-instead-of-failure"),
                        (Ok(_), Outcome::Fail(..)) => Some("failure-instead-of-value"),
                        (Ok(v), o) => match o.value() {
                            Some(g) if g.same(v) => None,
                            _ => Some("differs-from-fold"),
                        },
                    };
                    let long = if l.len() > 32 { " len>32" } else { "" };
                    if let Some(kind) = kind {
                        acc.violation(
                            &format!("{} [{}]{} {}", site, ctxs, long, kind),
                            case(),
                            format!("{:?} calls {:?}", want.as_ref().map(|v| v.show()), exp_log),
                            format!("{} calls {:?}", got.show(), got_log),
                        );
                    } else if log_fixed && exp_log != got_log {
                        acc.violation(
                            &format!("{} [{}]{} visiting-order-or-stopping-point", site, ctxs, long),
                            case(),
                            format!("calls {:?}", exp_log),
                            format!("calls {:?}", got_log),
                        );
                    }
                    // the caller's bindings are unchanged
                    let after = b.get_param("x").and_then(V::from_cel);
                    let unchanged = match (&after, outer) {
                        (None, false) => true,
                        (Some(V::Int(100)), true) => true,
                        _ => false,
                    };
                    if !unchanged {
                        acc.violation(
                            &format!("{} outer-binding-changed", site),
                            case(),
                            if outer { "x still 100".into() } else { "x still unbound".into() },
                            format!("{:?}", after.map(|v| v.show())),
                        );
                    }
                    if acc.wants_sample() && wrap == Wrap::Plain {
                        acc.sample(json!({"src": src, "expected": format!("{:?}", want.as_ref().map(|v| v.show())), "expected_calls": format!("{:?}", exp_log), "observed": got.show()}));
                    }
                }
            }
        }
    }
}

// ---------------------------------------------------------------------------
// maps: one fixed key order

const MKEYS: [&str; 4] = ["a", "b", "c", "d"];
/// key sets of the key-order family: letters, and texts that look like numbers (an order "by
/// value" is no total order on them: "1" and "01" and "+1" tie, "10" < "9" as text)
const KEYSETS: [[&str; 4]; 3] = [["a", "b", "c", "d"], ["10", "9", "1a", "+1"], ["1", "01", "2", "b"]];

fn permutations(n: usize) -> Vec<Vec<usize>> {
    fn rec(cur: &mut Vec<usize>, used: &mut Vec<bool>, n: usize, out: &mut Vec<Vec<usize>>) {
        if cur.len() == n {
            out.push(cur.clone());
            return;
        }
        for i in 0..n {
            if !used[i] {
                used[i] = true;
                cur.push(i);
                rec(cur, used, n, out);
                cur.pop();
                used[i] = false;
            }
        }
    }
    let mut out = Vec::new();
    rec(&mut Vec::new(), &mut vec![false; n], n, &mut out);
    out
}

#[derive(Clone, Copy, Debug)]
enum MapMacro {
    MapKeys,
    MapVals,
    FilterAll,
    FilterSome,
    Map3,
}
const MAPMACROS: [MapMacro; 5] = [MapMacro::MapKeys, MapMacro::MapVals, MapMacro::FilterAll, MapMacro::FilterSome, MapMacro::Map3];

impl MapMacro {
    fn src(&self, m: &str) -> String {
        match self {
            MapMacro::MapKeys => format!("{}.map(k, k)", m),
            MapMacro::MapVals => format!("{}.map(k, k + '!')", m),
            MapMacro::FilterAll => format!("{}.filter(k, true)", m),
            MapMacro::FilterSome => format!("{}.filter(k, k != 'a')", m),
            MapMacro::Map3 => format!("{}.map(k, k != 'b', k + k)", m),
        }
    }
    fn image(&self, k: &str) -> Option<String> {
        match self {
            MapMacro::MapKeys | MapMacro::FilterAll => Some(k.to_string()),
            MapMacro::MapVals => Some(format!("{}!", k)),
            MapMacro::FilterSome => (k != "a").then(|| k.to_string()),
            MapMacro::Map3 => (k != "b").then(|| format!("{}{}", k, k)),
        }
    }
}

fn run_mapcase(idx: u64, acc: &mut Acc) {
    // idx -> (non-empty subset of 4 keys, macro)
    let nm = MAPMACROS.len() as u64;
    let keyset = KEYSETS[(idx / (15 * nm)) as usize];
    let idx = idx % (15 * nm);
    let subset = (idx / nm) as usize + 1;
    let mm = MAPMACROS[(idx % nm) as usize];
    let keys: Vec<&str> = (0..4).filter(|i| subset & (1 << i) != 0).map(|i| keyset[i]).collect();
    let mut expected: Vec<String> = keys.iter().filter_map(|k| mm.image(k)).collect();
    expected.sort();
    let mut first: Option<(Vec<String>, String)> = None;
    for perm in permutations(keys.len()) {
        let order: Vec<&str> = perm.iter().map(|i| keys[*i]).collect();
        for build in ["literal", "literal-vars", "bound", "json"] {
            let mut b = BindContext::new();
            let msrc = match build {
                "literal" => format!("{{{}}}", order.iter().map(|k| format!("{}: 1", str_lit(k))).collect::<Vec<_>>().join(", ")),
                "literal-vars" => {
                    b.bind_param("one", CelValue::Int(1));
                    format!("{{{}}}", order.iter().map(|k| format!("{}: one", str_lit(k))).collect::<Vec<_>>().join(", "))
                }
                "bound" => {
                    let mut h = HashMap::new();
                    for k in &order {
                        h.insert(k.to_string(), CelValue::Int(1));
                    }
                    b.bind_param("m", CelValue::Map(h));
                    "m".to_string()
                }
                _ => {
                    let mut o = serde_json::Map::new();
                    let mut inner = serde_json::Map::new();
                    for k in &order {
                        inner.insert(k.to_string(), json!(1));
                    }
                    o.insert("m".to_string(), serde_json::Value::Object(inner));
                    let _ = b.bind_params_from_json_obj(serde_json::Value::Object(o));
                    "m".to_string()
                }
            };
            let src = mm.src(&msrc);
            for rep in 0..2 {
                let got = real::eval_with(&src, &b);
                acc.eval();
                acc.class(&got.class());
                let case = || json!({"src": src, "built": build, "insertion_order": order, "repetition": rep});
                let got_list: Option<Vec<String>> = match got.value() {
                    Some(V::List(l)) => l.iter().map(|v| if let V::Str(s) = v { Some(s.clone()) } else { None }).collect(),
                    _ => None,
                };
                let gl = match got_list {
                    Some(g) => g,
                    None => {
                        acc.violation(&format!("map-macro {:?} not-a-list-of-strings", mm), case(), format!("a permutation of {:?}", expected), got.show());
                        continue;
                    }
                };
                let mut sorted = gl.clone();
                sorted.sort();
                if sorted != expected {
                    acc.violation(&format!("map-macro {:?} not-a-permutation-of-the-images", mm), case(), format!("a permutation of {:?}", expected), got.show());
                    continue;
                }
                match &first {
                    None => first = Some((gl, format!("{} / {}", src, build))),
                    Some((f, how)) => {
                        if *f != gl {
                            acc.violation(
                                &format!("map-macro {:?} key-order-not-fixed", mm),
                                case(),
                                format!("the same order as for the same key set before ({}): {:?}", how, f),
                                format!("{:?}", gl),
                            );
                        }
                    }
                }
            }
        }
    }
    acc.nontrivial(&("maps", keyset, idx));
    if acc.wants_sample() {
        acc.sample(json!({"keys": keys, "macro": format!("{:?}", mm), "order_observed": first.map(|f| f.0)}));
    }
}

// ---------------------------------------------------------------------------
// maps: bodies that fail differently on different keys. Evaluation stops at the first key whose
// body fails, so with one fixed key order the class of the error is fixed too.

const FAILBODIES: [(&str, &str); 4] = [
    ("filter", "{M}.filter(k, k == 'a' || k == 'c' ? 1 / z > 0 : (k == 'b' ? int(w) > 0 : true))"),
    ("map", "{M}.map(k, k == 'a' || k == 'c' ? 1 / z : (k == 'b' ? int(w) : 1))"),
    ("map3-predicate", "{M}.map(k, k == 'a' || k == 'c' ? 1 / z > 0 : (k == 'b' ? int(w) > 0 : true), k)"),
    ("map3-expression", "{M}.map(k, true, k == 'a' || k == 'c' ? 1 / z : (k == 'b' ? int(w) : 1))"),
];

fn failbody_size() -> u64 {
    15 * FAILBODIES.len() as u64
}

fn run_failbody(idx: u64, acc: &mut Acc) {
    let nm = FAILBODIES.len() as u64;
    let subset = (idx / nm) as usize + 1;
    let (name, tmpl) = FAILBODIES[(idx % nm) as usize];
    let keys: Vec<&str> = (0..4).filter(|i| subset & (1 << i) != 0).map(|i| MKEYS[i]).collect();
    let mut first: Option<(String, String)> = None;
    for perm in permutations(keys.len()) {
        let order: Vec<&str> = perm.iter().map(|i| keys[*i]).collect();
        for build in ["literal", "literal-vars", "bound", "json"] {
            let mut b = BindContext::new();
            b.bind_param("z", CelValue::Int(0));
            b.bind_param("w", CelValue::String("x".to_string()));
            let msrc = match build {
                "literal" => format!("{{{}}}", order.iter().map(|k| format!("{}: 1", str_lit(k))).collect::<Vec<_>>().join(", ")),
                "literal-vars" => {
                    b.bind_param("one", CelValue::Int(1));
                    format!("{{{}}}", order.iter().map(|k| format!("{}: one", str_lit(k))).collect::<Vec<_>>().join(", "))
                }
                "bound" => {
                    let mut h = HashMap::new();
                    for k in &order {
                        h.insert(k.to_string(), CelValue::Int(1));
                    }
                    b.bind_param("m", CelValue::Map(h));
                    "m".to_string()
                }
                _ => {
                    let mut o = serde_json::Map::new();
                    let mut inner = serde_json::Map::new();
                    for k in &order {
                        inner.insert(k.to_string(), json!(1));
                    }
                    o.insert("m".to_string(), serde_json::Value::Object(inner));
                    let _ = b.bind_params_from_json_obj(serde_json::Value::Object(o));
                    "m".to_string()
                }
            };
            let src = tmpl.replace("{M}", &msrc);
            // a fresh program (and with it a fresh map constant) for every repetition
            for rep in 0..4 {
                let got = real::eval_with(&src, &b);
                acc.eval();
                acc.class(&got.class());
                let case = || json!({"src": src, "built": build, "insertion_order": order, "repetition": rep, "bindings": "z = 0, w = 'x'"});
                if got.is_panic() || got.is_compile_fail() {
                    acc.violation(&format!("map-macro failing-body {} panic-or-compile-error", name), case(), "a value or an error".into(), got.show());
                    continue;
                }
                let sig = match &got {
                    Outcome::Value(_) => format!("value {}", got.show()),
                    Outcome::Fail(k, _) => format!("fail {:?}", k),
                    _ => got.class(),
                };
                // only the key d: no body fails
                let must_fail = keys.iter().any(|k| *k != "d");
                if must_fail != got.is_fail() {
                    acc.violation(&format!("map-macro failing-body {} failure-lost-or-invented", name), case(), if must_fail { "an error".into() } else { "a value".into() }, got.show());
                    continue;
                }
                match &first {
                    None => first = Some((sig, format!("{} / {}", src, build))),
                    Some((f, how)) => {
                        if *f != sig {
                            acc.violation(
                                &format!("map-macro failing-body {} outcome-depends-on-the-map-instance", name),
                                case(),
                                format!("the same outcome as for the same key set before ({}): {}", how, f),
                                sig,
                            );
                        }
                    }
                }
            }
        }
    }
    acc.nontrivial(&("failing-bodies", idx));
    if acc.wants_sample() {
        acc.sample(json!({"keys": keys, "macro": name, "outcome": first.map(|f| f.0)}));
    }
}

// ---------------------------------------------------------------------------
// elements of every type (the list families above use ints)

fn typed_elems() -> Vec<V> {
    vec![V::s("a"), V::s(""), V::list(&[V::Int(1)]), V::list(&[]), V::map(&[("k", V::Int(1))]), V::Null, V::Dbl(1.5), V::Bool(false), V::Bytes(vec![97]), V::UInt(0)]
}

const TYPED_MACROS: [&str; 9] = [
    "$.filter(x, true)",
    "$.filter(x, x)",
    "$.map(x, x)",
    "$.map(x, [x])",
    "$.map(x, x, type(x) == string)",
    "$.all(x, x == x)",
    "$.exists(x, x)",
    "$.exists_one(x, !x)",
    "$.reduce(acc, x, acc + [x], [])",
];

fn run_typed(idx: u64, acc: &mut Acc) {
    let el = typed_elems();
    let n = el.len() as u64;
    // idx -> (list of length 0..3, macro, literal/bound)
    let d = unrank(idx, &[1 + n + n * n + n * n * n, TYPED_MACROS.len() as u64, 2]);
    let mut li = d[0];
    let mut l: Vec<V> = Vec::new();
    let mut len = 0;
    let mut block = 1u64;
    while li >= block {
        li -= block;
        block *= n;
        len += 1;
    }
    for _ in 0..len {
        l.push(el[(li % n) as usize].clone());
        li /= n;
    }
    let m = TYPED_MACROS[d[1] as usize];
    let lit = d[2] == 0;
    let lv = V::List(l.clone());
    let mut b = BindContext::new();
    let ls = if lit {
        lv.lit().unwrap()
    } else {
        b.bind_param("l", lv.to_cel());
        "l".to_string()
    };
    let src = m.replace('$', &ls);
    let t = |v: &V| refmodel::truthy(v);
    let want: V = match d[1] {
        0 => lv.clone(),
        1 => V::List(l.iter().filter(|v| t(v)).cloned().collect()),
        2 => lv.clone(),
        3 => V::List(l.iter().map(|v| V::list(&[v.clone()])).collect()),
        4 => V::List(l.iter().filter(|v| t(v)).map(|v| V::Bool(matches!(v, V::Str(_)))).collect()),
        5 => V::Bool(true),
        6 => V::Bool(l.iter().any(|v| t(v))),
        7 => V::Bool(l.iter().filter(|v| !t(v)).count() == 1),
        _ => lv.clone(),
    };
    let got = real::eval_with(&src, &b);
    acc.eval();
    acc.class(&got.class());
    acc.nontrivial(&("typed", idx));
    if !matches!(got.value(), Some(g) if g.same(&want)) {
        acc.violation(
            &format!("typed-elements `{}` [{}] differs-from-fold", m, if lit { "literal-list" } else { "bound-list" }),
            json!({"src": src, "list": lv.show()}),
            want.show(),
            got.show(),
        );
    }
    if acc.wants_sample() {
        acc.sample(json!({"src": src, "expected": want.show(), "observed": got.show()}));
    }
}

fn typed_size() -> u64 {
    let n = typed_elems().len() as u64;
    (1 + n + n * n + n * n * n) * TYPED_MACROS.len() as u64 * 2
}

// ---------------------------------------------------------------------------
// a stored program named like the loop variable must be shadowed too

fn run_shadow(idx: u64, acc: &mut Acc) {
    // idx -> (list over {0,1,2} of length <= 3, macro form)
    let forms = macro_forms();
    let nf = forms.len() as u64;
    let mut li = idx / nf;
    let m = forms[(idx % nf) as usize];
    let mut l: Vec<i64> = Vec::new();
    let mut len = 0;
    let mut block = 1u64;
    while li >= block {
        li -= block;
        block *= 3;
        len += 1;
    }
    for _ in 0..len {
        l.push((li % 3) as i64);
        li /= 3;
    }
    let mut exp_log = Vec::new();
    let exp = m.eval(&l, &mut exp_log);
    let lv = V::List(l.iter().map(|x| V::Int(*x)).collect());
    let src = m.src("l");
    let mut b = BindContext::new();
    b.bind_func("p", &p_impl);
    b.bind_func("q", &q_impl);
    b.bind_func("r", &r_impl);
    b.bind_param("y", CelValue::Int(1));
    b.bind_param("l", lv.to_cel());
    let mut ctx = CelContext::new();
    // programs stored under the names of the loop variables of the macro forms
    let ok = ctx.add_program_str("k", "x > 0").is_ok()
        && ctx.add_program_str("x", "100").is_ok()
        && ctx.add_program_str("acc", "1000").is_ok()
        && ctx.add_program_str("main", &src).is_ok();
    if !ok {
        return;
    }
    take_log();
    let got = real::exec_in(&mut ctx, "main", &b);
    let got_log = take_log();
    acc.eval();
    acc.class(&got.class());
    acc.nontrivial(&("shadow", idx));
    let good = match (&exp, &got) {
        (Err(()), Outcome::Fail(..)) => true,
        (Ok(v), o) => matches!(o.value(), Some(g) if g.same(v)),
        _ => false,
    };
    if !good || exp_log != got_log {
        acc.violation(
            &format!("{} loop-variable-does-not-shadow-a-stored-program-of-its-name", m.name()),
            json!({"src": src, "list": format!("{:?}", l), "stored_programs": "x := 100, acc := 1000, k := x > 0"}),
            format!("{:?} calls {:?}", exp.as_ref().map(|v| v.show()), exp_log),
            format!("{} calls {:?}", got.show(), got_log),
        );
    }
    if acc.wants_sample() {
        acc.sample(json!({"src": src, "stored_programs": "x := 100, acc := 1000", "observed": got.show()}));
    }
}

fn shadow_size() -> u64 {
    (1 + 3 + 9 + 27) * macro_forms().len() as u64
}

fn _unused(_: BTreeMap<String, V>) {}

// ---------------------------------------------------------------------------
// macros nested as deep as the parser accepts, every level run by the VM

const NEST_FORMS: [(&str, &str, &str); 5] = [
    ("map", "l.map(a{i}, ", ")"),
    ("all", "l.all(a{i}, ", ")"),
    ("exists", "l.exists(a{i}, ", ")"),
    ("exists_one", "l.exists_one(a{i}, ", ")"),
    ("filter", "l.filter(a{i}, ", ").size() == 1u"),
];

fn run_nested_macros(idx: u64, acc: &mut Acc) {
    let (name, open, close) = NEST_FORMS[(idx % 5) as usize];
    let k = (idx / 5) as usize + 1;
    let mut src = String::new();
    for i in 0..k {
        src.push_str(&open.replace("{i}", &i.to_string()));
    }
    src.push_str(if name == "map" { "a0 + 1" } else { "a0 == 0" });
    for _ in 0..k {
        src.push_str(close);
    }
    let b = real::bindings(&[("l", V::list(&[V::Int(0)]))]);
    let got = real::eval_with(&src, &b);
    acc.eval();
    acc.class(&got.class());
    if got.is_compile_fail() {
        acc.count("nested macros beyond the parser's nesting limit (skipped)", 1);
        return;
    }
    acc.nontrivial(&("nested", idx));
    let mut want = if name == "map" { V::Int(1) } else { V::Bool(true) };
    if name == "map" {
        for _ in 0..k {
            want = V::List(vec![want]);
        }
    }
    if !got.value().map(|g| g.same(&want)).unwrap_or(false) {
        acc.violation(
            &format!("nested {} {}", name, if k < 16 { "fewer than 16 levels" } else { "16 levels or more" }),
            json!({"src": src, "levels": k, "l": "[0]"}),
            want.show().chars().take(120).collect(),
            got.show().chars().take(200).collect(),
        );
    }
}

// ---------------------------------------------------------------------------
// a body that fails, the failure absorbed, and the loop variable's name read afterwards

const FAILING_MACROS: [&str; 7] = [
    "l.all(x, 10 / x > 0)",
    "l.exists(x, 10 / x > 100)",
    "l.exists_one(x, 10 / x > 100)",
    "l.filter(x, 10 / x > 0)",
    "l.map(x, 10 / x)",
    "l.map(x, 10 / x > 0, x)",
    "l.reduce(x, e, x + 10 / e, 0)",
];
const AFTER_FORMS: [&str; 4] = ["(has({M}) || true) ? x : -1", "[has({M}), x][1]", "(coalesce({M}, 0) == 0 || true) ? x + 0 : -1", "[1].map(q, (has({M}) || true) ? x : -1)[0]"];

fn run_absorbed(idx: u64, acc: &mut Acc) {
    let d = unrank(idx, &[FAILING_MACROS.len() as u64, AFTER_FORMS.len() as u64, 3, 2]);
    let m = FAILING_MACROS[d[0] as usize];
    let src = AFTER_FORMS[d[1] as usize].replace("{M}", m);
    let l = [vec![0i64, 1, 5], vec![1, 0, 5], vec![1, 5, 0]][d[2] as usize].iter().map(|i| V::Int(*i)).collect::<Vec<_>>();
    let outer_bound = d[3] == 1;
    let mut binds: Vec<(&str, V)> = vec![("l", V::List(l.clone()))];
    if outer_bound {
        binds.push(("x", V::Int(100)));
    }
    let got = real::eval(&src, &binds);
    acc.eval();
    acc.class(&got.class());
    acc.nontrivial(&("absorbed", idx));
    let ok = if outer_bound { matches!(got.value(), Some(V::Int(100))) } else { matches!(got.fail_kind(), Some(k) if k.is_absent()) };
    if !ok {
        acc.violation(
            &format!("`{}` after-an-absorbed-failure the-name-x-reads-{}", m, if outer_bound { "something-else-than-the-outer-binding" } else { "as-bound" }),
            json!({"src": src, "l": format!("{:?}", l.iter().map(|v| v.show()).collect::<Vec<_>>()), "outer_x": if outer_bound { "100" } else { "unbound" }}),
            if outer_bound { "Int(100)".into() } else { "an unbound-variable failure".into() },
            got.show(),
        );
    }
}

pub fn replay_families(t: Tier) -> Vec<Family<'static>> {
    let sp: &'static Space = Box::leak(Box::new(Space::new(t)));
    vec![
        Family::new("list-macros", sp.size(), move |i, a| sp.run(i, a)),
        Family::new("map-key-order", (KEYSETS.len() * 15 * MAPMACROS.len()) as u64, run_mapcase),
        Family::new("map-failing-bodies", failbody_size(), run_failbody),
        Family::new("nested-macros", 5 * 31, run_nested_macros),
        Family::new("absorbed-failures", (FAILING_MACROS.len() * AFTER_FORMS.len() * 3 * 2) as u64, run_absorbed),
        Family::new("typed-elements", typed_size(), run_typed),
        Family::new("shadowed-programs", shadow_size(), run_shadow),
    ]
}

pub fn run(t: Tier) -> i32 {
    let mut rep = Report::new(ID, t, "exploration");
    let sp = Space::new(t);
    rep.rule = format!(
        "list-macros: {} lists (all lists of length <= {} over {{0,1,2}}, all 0/1 lists up to length {}, lists of length {} with at most {} ones - beyond the call-depth limit of 32) x {} macro forms (all/exists/exists_one/filter x 11 bodies, map/2 x 4, map/3 x 20, reduce x 6; bodies read the loop variable, an outer variable, a stored program, inner macros re-using the name or reading the outer loop variable, a call-recording function, fail at the element 1, or read an unbound name) x literal/bound list x outer binding of the loop variable name absent/100 x the name read before/after the macro; the result and the exact log of recorded calls (visiting order and stopping point) must equal the defining fold, and the caller's binding of the name must be unchanged. map-key-order: every non-empty subset of 4 keys (three key sets: letters, and two of texts that look like numbers - 10, 9, 1a, +1 and 1, 01, 2, b) x 5 macro forms, the map built in every insertion order as literal, literal with variable values, bound HashMap and JSON, evaluated twice each: a permutation of the images and always the same permutation. map-failing-bodies: the same key sets, orders and four ways of building the map x 4 macro forms (filter, map/2, map/3 predicate, map/3 expression) whose body divides by zero on the keys a and c, fails to convert on b and succeeds on d, four fresh programs each: the outcome (value, or class of the error - the first failing key decides it) must be the same for every instance of the same key set. nested-macros: map, all, exists, exists_one and filter nested 1..31 levels over a bound list (as deep as the parser accepts): the defining folds' value at every depth; absorbed-failures: 7 macros whose body divides by an element that is zero at the first, middle or last place, the failure absorbed by has/coalesce, and the loop variable's name read afterwards in 4 forms: the outer binding (100) or, without one, an unbound-variable failure; typed-elements: all lists of length <= 3 over 10 elements of every type (strings, lists, maps, null, double, bool, bytes, uint) x 9 macro forms whose result is determined by identity and truthiness, literal and bound. shadowed-programs: all lists of length <= 3 over {{0,1,2}} x all macro forms with programs stored under the loop-variable names (x, acc). Non-trivial = every case; distinct by (index, form)",
        sp.lists.len(),
        t.pick(5, 6),
        t.pick(8, 10),
        t.pick("16..64 (7 lengths)", "11..64"),
        t.pick(1, 2),
        sp.forms.len()
    );
    rep.run_family(Family::new("list-macros", sp.size(), |i, a| sp.run(i, a)));
    rep.run_family(Family::new("map-key-order", (KEYSETS.len() * 15 * MAPMACROS.len()) as u64, run_mapcase));
    rep.run_family(Family::new("map-failing-bodies", failbody_size(), run_failbody));
    rep.run_family(Family::new("nested-macros", 5 * 31, run_nested_macros));
    rep.run_family(Family::new("absorbed-failures", (FAILING_MACROS.len() * AFTER_FORMS.len() * 3 * 2) as u64, run_absorbed));
    rep.run_family(Family::new("typed-elements", typed_size(), run_typed));
    rep.run_family(Family::new("shadowed-programs", shadow_size(), run_shadow));
    rep.assumptions = vec![
        "sortedness of the map key order is not demanded, only that it is the same for every map with that key set".into(),
        "when the loop-variable name is read outside the macro and is unbound the expression must fail; whether the macro body ran is not fixed".into(),
    ];
    rep.finish()
}
