//! C15 — string, regex and math built-ins compute their documented function.
use crate::engine::*;
use crate::grids::*;
use crate::real::{self, Outcome};
use crate::refmodel::Exp;
use crate::val::{V, NS};
use serde_json::json;

pub const ID: &str = "C15";

const ALPHA: [char; 8] = ['a', 'b', 'A', ' ', 'é', 'É', 'ß', 'İ'];

fn strings_upto(maxlen: u32) -> Vec<String> {
    let mut out = vec![String::new()];
    let mut layer = vec![String::new()];
    for _ in 0..maxlen {
        let mut next = Vec::new();
        for s in &layer {
            for c in ALPHA {
                let mut t = s.clone();
                t.push(c);
                next.push(t);
            }
        }
        out.extend(next.iter().cloned());
        layer = next;
    }
    out
}

// ---- naive reference implementations over byte windows ------------------------------

fn find_from(h: &[u8], n: &[u8], from: usize) -> Option<usize> {
    if n.is_empty() {
        return Some(from);
    }
    if h.len() < n.len() {
        return None;
    }
    (from..=h.len() - n.len()).find(|i| &h[*i..*i + n.len()] == n)
}
fn rfind_upto(h: &[u8], n: &[u8], end: usize) -> Option<usize> {
    // last occurrence that ends at or before `end`
    if n.is_empty() || end < n.len() {
        return None;
    }
    (0..=end - n.len()).rev().find(|i| &h[*i..*i + n.len()] == n)
}
fn r_contains(h: &str, n: &str) -> bool {
    find_from(h.as_bytes(), n.as_bytes(), 0).is_some()
}
fn r_starts(h: &str, n: &str) -> bool {
    h.len() >= n.len() && &h.as_bytes()[..n.len()] == n.as_bytes()
}
fn r_ends(h: &str, n: &str) -> bool {
    h.len() >= n.len() && &h.as_bytes()[h.len() - n.len()..] == n.as_bytes()
}
fn r_split(h: &str, d: &str) -> Vec<String> {
    let (hb, db) = (h.as_bytes(), d.as_bytes());
    let mut out = Vec::new();
    let mut pos = 0;
    while let Some(i) = find_from(hb, db, pos) {
        out.push(String::from_utf8(hb[pos..i].to_vec()).unwrap());
        pos = i + db.len();
    }
    out.push(String::from_utf8(hb[pos..].to_vec()).unwrap());
    out
}
fn r_rsplit(h: &str, d: &str) -> Vec<String> {
    let (hb, db) = (h.as_bytes(), d.as_bytes());
    let mut out = Vec::new();
    let mut end = hb.len();
    while let Some(i) = rfind_upto(hb, db, end) {
        out.push(String::from_utf8(hb[i + db.len()..end].to_vec()).unwrap());
        end = i;
    }
    out.push(String::from_utf8(hb[..end].to_vec()).unwrap());
    out
}
fn r_replace(h: &str, n: &str, to: &str) -> String {
    r_split(h, n).join(to)
}
fn r_trim_start_matches(h: &str, p: &str) -> String {
    let mut s = h;
    while r_starts(s, p) {
        s = &s[p.len()..];
    }
    s.to_string()
}
fn r_trim_end_matches(h: &str, p: &str) -> String {
    let mut s = h;
    while r_ends(s, p) {
        s = &s[..s.len() - p.len()];
    }
    s.to_string()
}
fn is_ws(c: char) -> bool {
    c.is_whitespace()
}

fn strs(v: Vec<String>) -> V {
    V::List(v.into_iter().map(V::Str).collect())
}

fn judge(acc: &mut Acc, site: &str, src: &str, binds: &[(&str, V)], exp: &Exp) {
    let got = real::eval(src, binds);
    acc.eval();
    acc.class(&got.class());
    let case = || json!({"src": src, "bindings": binds.iter().map(|(k, v)| json!([k, v.show()])).collect::<Vec<_>>()});
    if got.is_panic() || got.is_compile_fail() {
        acc.violation(&format!("{} panic-or-compile-error", site), case(), exp.show(), got.show());
        return;
    }
    match exp {
        Exp::Val(v) => {
            if !got.value().map(|g| g.same(v)).unwrap_or(false) {
                acc.violation(&format!("{} wrong-result", site), case(), exp.show(), got.show());
            }
        }
        Exp::Fail => {
            if !got.is_fail() {
                acc.violation(&format!("{} error-expected", site), case(), exp.show(), got.show());
            }
        }
        Exp::Unspec => {}
    }
    if acc.wants_sample() {
        acc.sample(json!({"src": src, "bindings": binds.iter().map(|(k, v)| json!([k, v.show()])).collect::<Vec<_>>(), "expected": exp.show()}));
    }
}

// ---- case folding that changes the length of the text --------------------------------------

/// characters whose lower-case form has another UTF-8 length (KELVIN SIGN 3 -> 1, ANGSTROM SIGN
/// 3 -> 2, capital sharp s 3 -> 2, dotted capital I 2 -> 3) next to the forms they fold to
const FOLD: [char; 10] = ['k', '\u{212A}', 's', 'ß', '\u{1E9E}', '\u{130}', 'i', '\u{307}', 'å', '\u{212B}'];

fn fold_strings(maxlen: u32) -> Vec<String> {
    let mut out = vec![String::new()];
    let mut layer = vec![String::new()];
    for _ in 0..maxlen {
        let mut next = Vec::new();
        for s in &layer {
            for c in FOLD {
                let mut t = s.clone();
                t.push(c);
                next.push(t);
            }
        }
        out.extend(next.iter().cloned());
        layer = next;
    }
    out
}

pub struct CaseFold {
    hay: Vec<String>,
    needles: Vec<String>,
}
impl CaseFold {
    pub fn new(t: Tier) -> CaseFold {
        CaseFold { hay: fold_strings(t.pick(2, 3)), needles: fold_strings(2) }
    }
    pub fn size(&self) -> u64 {
        (self.hay.len() * self.needles.len()) as u64
    }
    pub fn run(&self, idx: u64, acc: &mut Acc) {
        let h = &self.hay[idx as usize / self.needles.len()];
        let n = &self.needles[idx as usize % self.needles.len()];
        let b = [("s", V::Str(h.clone())), ("n", V::Str(n.clone()))];
        let (hl, nl) = (h.to_lowercase(), n.to_lowercase());
        let flips = (n.len() > h.len()) != (nl.len() > hl.len());
        for (site, f, want) in [
            ("containsI", "containsI", r_contains(&hl, &nl)),
            ("startsWithI", "startsWithI", r_starts(&hl, &nl)),
            ("endsWithI", "endsWithI", r_ends(&hl, &nl)),
            ("contains", "contains", r_contains(h, n)),
            ("startsWith", "startsWith", r_starts(h, n)),
            ("endsWith", "endsWith", r_ends(h, n)),
        ] {
            let site = if flips { format!("{} length-order-changes-under-folding", site) } else { site.to_string() };
            judge(acc, &site, &format!("s.{}(n)", f), &b, &Exp::Val(V::Bool(want)));
            judge(acc, &format!("{} literal", site), &format!("{}.{}({})", crate::val::str_lit(h), f, crate::val::str_lit(n)), &[], &Exp::Val(V::Bool(want)));
        }
        judge(acc, "toLower", "s.toLower()", &b, &Exp::Val(V::Str(hl.clone())));
        judge(acc, "toUpper", "s.toUpper()", &b, &Exp::Val(V::Str(h.to_uppercase())));
        if flips {
            acc.nontrivial(&idx);
        }
    }
}

// ---- occurrences that only form when another one is taken out ----------------------------------

/// all strings up to length 6 over {a, b} and up to length 4 over {é, ü} x needles up to length 3:
/// `aabb` without `ab` is `ab` (one pass, left to right), not the empty string
pub struct Reforming {
    hay: Vec<String>,
    needles: Vec<String>,
}
fn strings_over(alpha: &[char], maxlen: u32) -> Vec<String> {
    let mut out = vec![String::new()];
    let mut layer = vec![String::new()];
    for _ in 0..maxlen {
        let mut next = Vec::new();
        for s in &layer {
            for c in alpha {
                let mut t = s.clone();
                t.push(*c);
                next.push(t);
            }
        }
        out.extend(next.iter().cloned());
        layer = next;
    }
    out
}
impl Reforming {
    pub fn new(t: Tier) -> Reforming {
        let mut hay = strings_over(&['a', 'b'], t.pick(6, 9));
        hay.extend(strings_over(&['é', 'ü'], t.pick(4, 6)).into_iter().skip(1));
        let mut needles: Vec<String> = strings_over(&['a', 'b'], 3).into_iter().skip(1).collect();
        needles.extend(strings_over(&['é', 'ü'], 2).into_iter().skip(1));
        Reforming { hay, needles }
    }
    pub fn size(&self) -> u64 {
        (self.hay.len() * self.needles.len()) as u64
    }
    pub fn run(&self, idx: u64, acc: &mut Acc) {
        let h = &self.hay[idx as usize / self.needles.len()];
        let n = &self.needles[idx as usize % self.needles.len()];
        let b = [("s", V::Str(h.clone())), ("n", V::Str(n.clone()))];
        judge(acc, "remove", "s.remove(n)", &b, &Exp::Val(V::Str(r_replace(h, n, ""))));
        judge(acc, "replace", "s.replace(n, '')", &b, &Exp::Val(V::Str(r_replace(h, n, ""))));
        judge(acc, "replace", "s.replace(n, 'b')", &b, &Exp::Val(V::Str(r_replace(h, n, "b"))));
        judge(acc, "split", "s.split(n)", &b, &Exp::Val(strs(r_split(h, n))));
        judge(acc, "rsplit", "s.rsplit(n)", &b, &Exp::Val(strs(r_rsplit(h, n))));
        judge(acc, "trimStartMatches", "s.trimStartMatches(n)", &b, &Exp::Val(V::Str(r_trim_start_matches(h, n))));
        judge(acc, "trimEndMatches", "s.trimEndMatches(n)", &b, &Exp::Val(V::Str(r_trim_end_matches(h, n))));
        judge(acc, "remove literal", &format!("{}.remove({})", crate::val::str_lit(h), crate::val::str_lit(n)), &[], &Exp::Val(V::Str(r_replace(h, n, ""))));
        if r_contains(&r_replace(h, n, ""), n) {
            acc.nontrivial(&idx);
        }
    }
}

// ---- strings x needles ------------------------------------------------------------------

pub struct StrPairs {
    hay: Vec<String>,
    needles: Vec<String>,
}
impl StrPairs {
    pub fn new(t: Tier) -> StrPairs {
        StrPairs { hay: strings_upto(t.pick(3, 4)), needles: strings_upto(2) }
    }
    pub fn size(&self) -> u64 {
        (self.hay.len() * self.needles.len()) as u64
    }
    pub fn run(&self, idx: u64, acc: &mut Acc) {
        let h = &self.hay[idx as usize / self.needles.len()];
        let n = &self.needles[idx as usize % self.needles.len()];
        let b = [("s", V::Str(h.clone())), ("n", V::Str(n.clone()))];
        let (hl, nl) = (h.to_lowercase(), n.to_lowercase());
        judge(acc, "contains", "s.contains(n)", &b, &Exp::Val(V::Bool(r_contains(h, n))));
        judge(acc, "startsWith", "s.startsWith(n)", &b, &Exp::Val(V::Bool(r_starts(h, n))));
        judge(acc, "endsWith", "s.endsWith(n)", &b, &Exp::Val(V::Bool(r_ends(h, n))));
        judge(acc, "containsI", "s.containsI(n)", &b, &Exp::Val(V::Bool(r_contains(&hl, &nl))));
        judge(acc, "startsWithI", "s.startsWithI(n)", &b, &Exp::Val(V::Bool(r_starts(&hl, &nl))));
        judge(acc, "endsWithI", "s.endsWithI(n)", &b, &Exp::Val(V::Bool(r_ends(&hl, &nl))));
        judge(acc, "in-substring", "n in s", &b, &Exp::Val(V::Bool(r_contains(h, n))));
        if !n.is_empty() {
            judge(acc, "split", "s.split(n)", &b, &Exp::Val(strs(r_split(h, n))));
            judge(acc, "rsplit", "s.rsplit(n)", &b, &Exp::Val(strs(r_rsplit(h, n))));
            judge(acc, "remove", "s.remove(n)", &b, &Exp::Val(V::Str(r_replace(h, n, ""))));
            judge(acc, "trimStartMatches", "s.trimStartMatches(n)", &b, &Exp::Val(V::Str(r_trim_start_matches(h, n))));
            judge(acc, "trimEndMatches", "s.trimEndMatches(n)", &b, &Exp::Val(V::Str(r_trim_end_matches(h, n))));
            for to in ["", "x", "ab", "é"] {
                let b3 = [("s", V::Str(h.clone())), ("n", V::Str(n.clone())), ("r", V::s(to))];
                judge(acc, "replace", "s.replace(n, r)", &b3, &Exp::Val(V::Str(r_replace(h, n, to))));
            }
            // replacing a needle by itself is the identity
            judge(acc, "replace-identity", "s.replace(n, n) == s", &b, &Exp::Val(V::Bool(true)));
        } else {
            for src in ["s.split(n)", "s.rsplit(n)", "s.remove(n)", "s.replace(n, 'x')", "s.trimStartMatches(n)", "s.trimEndMatches(n)"] {
                judge(acc, "empty-needle", src, &b, &Exp::Unspec);
            }
        }
        acc.nontrivial(&idx);
    }
}

// ---- unary string functions ----------------------------------------------------------------

pub struct StrUnary {
    hay: Vec<String>,
}
impl StrUnary {
    pub fn new(t: Tier) -> StrUnary {
        let mut hay = strings_upto(t.pick(3, 4));
        for s in ["\t a\n", " a b  c ", "\u{a0}a\u{a0}", "a\u{2003}b", "ǅ", "ŉ", "ﬁ", "ΑΣ", "a\tb\nc", "  ", "😀 é"] {
            hay.push(s.to_string());
        }
        StrUnary { hay }
    }
    pub fn size(&self) -> u64 {
        self.hay.len() as u64
    }
    pub fn run(&self, idx: u64, acc: &mut Acc) {
        let h = &self.hay[idx as usize];
        let b = [("s", V::Str(h.clone()))];
        judge(acc, "toLower", "s.toLower()", &b, &Exp::Val(V::Str(h.to_lowercase())));
        judge(acc, "toUpper", "s.toUpper()", &b, &Exp::Val(V::Str(h.to_uppercase())));
        judge(acc, "toLower-idempotent", "s.toLower().toLower() == s.toLower()", &b, &Exp::Val(V::Bool(true)));
        // trim*: ASCII (documented) and Unicode (implemented) whitespace agree unless the string
        // has a non-ASCII blank at an end; then either answer is accepted
        let uni = |f: &dyn Fn(&str) -> &str| f(h).to_string();
        let ascii_ws = |c: char| c.is_ascii_whitespace();
        let variants: [(&str, String, String); 3] = [
            ("trim", uni(&|s| s.trim()), h.trim_matches(ascii_ws).to_string()),
            ("trimStart", uni(&|s| s.trim_start()), h.trim_start_matches(ascii_ws).to_string()),
            ("trimEnd", uni(&|s| s.trim_end()), h.trim_end_matches(ascii_ws).to_string()),
        ];
        for (f, u, a) in variants {
            let src = format!("s.{}()", f);
            if u == a {
                judge(acc, f, &src, &b, &Exp::Val(V::Str(u)));
            } else {
                let got = real::eval(&src, &b);
                acc.eval();
                let ok = matches!(got.value(), Some(V::Str(ref g)) if *g == u || *g == a);
                if !ok {
                    acc.violation(&format!("{} wrong-result", f), json!({"src": src, "s": h}), format!("{:?} or {:?}", u, a), got.show());
                }
            }
        }
        let ws: Vec<String> = h.split(is_ws).filter(|p| !p.is_empty()).map(|p| p.to_string()).collect();
        judge(acc, "splitWhiteSpace", "s.splitWhiteSpace()", &b, &Exp::Val(strs(ws)));
        judge(acc, "size", "s.size()", &b, &Exp::Val(V::UInt(h.len() as u64)));
        judge(acc, "size-free", "size(s)", &b, &Exp::Val(V::UInt(h.len() as u64)));
        // splitAt at every integer around the string
        let len = h.len() as i64;
        let mut offs: Vec<i64> = (-2..=len + 2).collect();
        offs.extend([i64::MAX, i64::MIN, 1 << 32]);
        for i in offs {
            let exp = if i >= 0 && i <= len && h.is_char_boundary(i as usize) {
                Exp::Val(strs(vec![h[..i as usize].to_string(), h[i as usize..].to_string()]))
            } else {
                Exp::Fail
            };
            judge(acc, "splitAt", "s.splitAt(i)", &[("s", V::Str(h.clone())), ("i", V::Int(i))], &exp);
        }
        acc.nontrivial(&idx);
    }
}

// ---- regex ---------------------------------------------------------------------------------

const PATTERNS: [&str; 14] = ["a", "[ab]", "^a", "a$", "a|b", "(a)(b)?", "(?<first>a)(?<last>b)", "", "(", "[", "*", "a{99999}{99999}", "\\p{L}", "(?i)é"];
const TEMPLATES: [&str; 5] = ["x", "$1", "${last}${first}", "$$", "[$0]"];

pub struct Regexes {
    hay: Vec<String>,
}
impl Regexes {
    pub fn new(t: Tier) -> Regexes {
        Regexes { hay: strings_upto(t.pick(2, 3)) }
    }
    pub fn size(&self) -> u64 {
        (self.hay.len() * PATTERNS.len()) as u64
    }
    pub fn run(&self, idx: u64, acc: &mut Acc) {
        let h = &self.hay[idx as usize / PATTERNS.len()];
        let p = PATTERNS[idx as usize % PATTERNS.len()];
        let b = [("s", V::Str(h.clone())), ("p", V::s(p))];
        match regex::Regex::new(p) {
            Err(_) => {
                for src in ["s.matches(p)", "s.matchCaptures(p)", "s.matchReplace(p, 'x')", "s.matchReplaceOnce(p, 'x')"] {
                    judge(acc, "regex-invalid-pattern", src, &b, &Exp::Fail);
                }
            }
            Ok(re) => {
                judge(acc, "matches", "s.matches(p)", &b, &Exp::Val(V::Bool(re.is_match(h))));
                let caps = match re.captures(h) {
                    Some(c) => V::List(c.iter().map(|m| m.map(|m| V::s(m.as_str())).unwrap_or(V::Null)).collect()),
                    None => V::Null,
                };
                judge(acc, "matchCaptures", "s.matchCaptures(p)", &b, &Exp::Val(caps));
                for tpl in TEMPLATES {
                    let b3 = [("s", V::Str(h.clone())), ("p", V::s(p)), ("r", V::s(tpl))];
                    judge(acc, "matchReplace", "s.matchReplace(p, r)", &b3, &Exp::Val(V::Str(re.replace_all(h, tpl).into_owned())));
                    judge(acc, "matchReplaceOnce", "s.matchReplaceOnce(p, r)", &b3, &Exp::Val(V::Str(re.replace(h, tpl).into_owned())));
                }
            }
        }
        acc.nontrivial(&idx);
    }
}

// ---- math ------------------------------------------------------------------------------------

fn ilog(mut n: u128, base: u128) -> i128 {
    let mut k = 0;
    while n >= base {
        n /= base;
        k += 1;
    }
    k
}

fn int_pow(base: i128, exp: u128) -> Option<i128> {
    // exact power with early exit once outside every 64-bit type
    let mut r: i128 = 1;
    if base == 0 {
        return Some(if exp == 0 { 1 } else { 0 });
    }
    if base == 1 {
        return Some(1);
    }
    if base == -1 {
        return Some(if exp % 2 == 0 { 1 } else { -1 });
    }
    if exp > 64 {
        return None;
    }
    for _ in 0..exp {
        r = r.checked_mul(base)?;
        if r.unsigned_abs() > (1u128 << 64) {
            return None;
        }
    }
    Some(r)
}

fn num(v: &V) -> Option<f64> {
    match v {
        V::Int(i) => Some(*i as f64),
        V::UInt(u) => Some(*u as f64),
        V::Dbl(d) => Some(*d),
        _ => None,
    }
}

fn to_int_exp(d: f64) -> Exp {
    // double -> int result of ceil/floor/round; outside the int range or NaN is not fixed
    if d.is_nan() || d < -9223372036854775808.0 || d >= 9223372036854775808.0 {
        Exp::Unspec
    } else {
        Exp::Val(V::Int(d as i64))
    }
}

fn math1(f: &str, x: &V) -> Exp {
    use V::*;
    match (f, x) {
        ("abs", Int(i)) => i.checked_abs().map(|v| Exp::Val(Int(v))).unwrap_or(Exp::Fail),
        ("abs", UInt(u)) => Exp::Val(UInt(*u)),
        ("abs", Dbl(d)) => Exp::Val(Dbl(d.abs())),
        ("sqrt", Int(i)) => {
            if *i < 0 {
                Exp::Unspec
            } else {
                Exp::Val(Dbl((*i as f64).sqrt()))
            }
        }
        ("sqrt", UInt(u)) => Exp::Val(Dbl((*u as f64).sqrt())),
        ("sqrt", Dbl(d)) => Exp::Val(Dbl(d.sqrt())),
        ("log", Int(i)) => {
            if *i <= 0 {
                Exp::Fail
            } else {
                Exp::Val(Int(ilog(*i as u128, 10) as i64))
            }
        }
        ("log", UInt(u)) => {
            if *u == 0 {
                Exp::Fail
            } else {
                Exp::Val(UInt(ilog(*u as u128, 10) as u64))
            }
        }
        ("log", Dbl(d)) => Exp::Val(Dbl(d.log10())),
        ("lg", Int(i)) => {
            if *i <= 0 {
                Exp::Fail
            } else {
                Exp::Val(Int(ilog(*i as u128, 2) as i64))
            }
        }
        ("lg", UInt(u)) => {
            if *u == 0 {
                Exp::Fail
            } else {
                Exp::Val(UInt(ilog(*u as u128, 2) as u64))
            }
        }
        ("lg", Dbl(d)) => Exp::Val(Dbl(d.log2())),
        ("ceil" | "floor" | "round", Int(i)) => Exp::Val(Int(*i)),
        ("ceil" | "floor" | "round", UInt(u)) => Exp::Val(UInt(*u)),
        ("ceil", Dbl(d)) => to_int_exp(d.ceil()),
        ("floor", Dbl(d)) => to_int_exp(d.floor()),
        ("round", Dbl(d)) => to_int_exp(d.round()),
        _ => Exp::Fail,
    }
}

fn pow_ref(a: &V, b: &V) -> Exp {
    use V::*;
    match (a, b) {
        (Dbl(x), _) => match num(b) {
            Some(y) => Exp::Val(Dbl(x.powf(y))),
            None => Exp::Fail,
        },
        (Int(_) | UInt(_), Int(_) | UInt(_)) => {
            let base: i128 = match a {
                Int(i) => *i as i128,
                UInt(u) => *u as i128,
                _ => unreachable!(),
            };
            let e: i128 = match b {
                Int(i) => *i as i128,
                UInt(u) => *u as i128,
                _ => unreachable!(),
            };
            if e < 0 {
                return Exp::Fail;
            }
            match int_pow(base, e as u128) {
                None => Exp::Fail,
                Some(r) => match a {
                    Int(_) => i64::try_from(r).map(|v| Exp::Val(Int(v))).unwrap_or(Exp::Fail),
                    _ => u64::try_from(r).map(|v| Exp::Val(UInt(v))).unwrap_or(Exp::Fail),
                },
            }
        }
        (Int(_) | UInt(_), Dbl(y)) => {
            // whole non-negative exponents are the integer power; anything else is not fixed
            if y.is_finite() && *y >= 0.0 && y.fract() == 0.0 && *y < 1e18 {
                pow_ref(a, &UInt(*y as u64))
            } else {
                Exp::Unspec
            }
        }
        _ => Exp::Fail,
    }
}

pub struct Math {
    grid: Vec<V>,
    small: Vec<V>,
}
const MATH1: [&str; 7] = ["abs", "sqrt", "log", "lg", "ceil", "floor", "round"];
impl Math {
    pub fn new(t: Tier) -> Math {
        let mut grid = numeric_grid(t);
        for d in [2.5, -2.5, 0.5, -0.5, 1.4999999999999998, 2.4, -2.6, 1e18, 9223372036854775807.0, 4611686018427387904.0, 1000.0, 8.0, 0.001] {
            grid.push(V::Dbl(d));
        }
        for i in [9i64, 10, 99, 100, 1000, 1024, 1023, 999_999_999_999] {
            grid.push(V::Int(i));
            grid.push(V::UInt(i as u64));
        }
        // every power of ten and of two with its neighbours (integer log and lg must not go through a double)
        for k in 1..=19u32 {
            let p = 10u64.pow(k);
            for u in [p - 1, p, p + 1] {
                grid.push(V::UInt(u));
                if let Ok(i) = i64::try_from(u) {
                    grid.push(V::Int(i));
                }
            }
        }
        for k in 1..=63u32 {
            let p = 1u64 << k;
            for u in [p - 1, p, p + 1] {
                grid.push(V::UInt(u));
                if let Ok(i) = i64::try_from(u) {
                    grid.push(V::Int(i));
                }
            }
        }
        grid.extend(other_grid());
        let mut small = numeric_grid(Tier::Quick);
        for e in [2i64, 3, 10, 31, 32, 62, 63, 64, 65, -2] {
            small.push(V::Int(e));
            if e >= 0 {
                small.push(V::UInt(e as u64));
            }
            small.push(V::Dbl(e as f64));
        }
        small.push(V::Dbl(0.5));
        small.push(V::s("a"));
        small.push(V::Null);
        Math { grid, small }
    }
    pub fn size(&self) -> u64 {
        (self.grid.len() * MATH1.len() + self.small.len() * self.small.len()) as u64
    }
    pub fn run(&self, idx: u64, acc: &mut Acc) {
        let n1 = (self.grid.len() * MATH1.len()) as u64;
        if idx < n1 {
            let x = &self.grid[idx as usize / MATH1.len()];
            let f = MATH1[idx as usize % MATH1.len()];
            let exp = math1(f, x);
            judge(acc, &format!("{}({})", f, x.type_name()), &format!("{}(x)", f), &[("x", x.clone())], &exp);
            if let Some(l) = x.src() {
                judge(acc, &format!("{}({}) literal", f, x.type_name()), &format!("{}({})", f, l), &[], &exp);
            }
            if !matches!(exp, Exp::Unspec) {
                acc.nontrivial(&idx);
            }
        } else {
            let i = idx - n1;
            let k = self.small.len() as u64;
            let (a, b) = (&self.small[(i / k) as usize], &self.small[(i % k) as usize]);
            let exp = pow_ref(a, b);
            judge(acc, &format!("pow({},{})", a.type_name(), b.type_name()), "pow(a, b)", &[("a", a.clone()), ("b", b.clone())], &exp);
            if !matches!(exp, Exp::Unspec) {
                acc.nontrivial(&idx);
            }
        }
    }
}

// ---- argument shapes --------------------------------------------------------------------------

#[derive(Clone, Copy, PartialEq, Debug)]
enum Ty {
    Int,
    UInt,
    Dbl,
    Bool,
    Str,
    Bytes,
    List,
    Map,
    Null,
    Ts,
    Dur,
    Type,
}
fn ty_of(v: &V) -> Ty {
    match v {
        V::Int(_) => Ty::Int,
        V::UInt(_) => Ty::UInt,
        V::Dbl(_) => Ty::Dbl,
        V::Bool(_) => Ty::Bool,
        V::Str(_) => Ty::Str,
        V::Bytes(_) => Ty::Bytes,
        V::List(_) => Ty::List,
        V::Map(_) => Ty::Map,
        V::Null => Ty::Null,
        V::Ts(_) => Ty::Ts,
        V::Dur(_) => Ty::Dur,
        V::Type(_) => Ty::Type,
    }
}
const NUMS: [Ty; 3] = [Ty::Int, Ty::UInt, Ty::Dbl];

/// documented shapes: (name, is_method, receiver/first-argument types, remaining argument types per position)
fn documented() -> Vec<(&'static str, bool, Vec<Ty>, Vec<Vec<Ty>>)> {
    let s = vec![Ty::Str];
    let mut v: Vec<(&'static str, bool, Vec<Ty>, Vec<Vec<Ty>>)> = Vec::new();
    for f in ["contains", "containsI", "startsWith", "startsWithI", "endsWith", "endsWithI", "matches", "matchCaptures", "remove", "split", "rsplit", "trimStartMatches", "trimEndMatches"] {
        v.push((f, true, s.clone(), vec![s.clone()]));
    }
    for f in ["matchReplace", "matchReplaceOnce", "replace"] {
        v.push((f, true, s.clone(), vec![s.clone(), s.clone()]));
    }
    v.push(("splitAt", true, s.clone(), vec![vec![Ty::Int]]));
    for f in ["splitWhiteSpace", "trim", "trimStart", "trimEnd", "toLower", "toUpper"] {
        v.push((f, true, s.clone(), vec![]));
    }
    v.push(("size", true, vec![Ty::Str, Ty::Bytes, Ty::List], vec![]));
    v.push(("size", false, vec![Ty::Str, Ty::Bytes, Ty::List], vec![]));
    v.push(("sort", true, vec![Ty::List], vec![]));
    for f in ["abs", "sqrt", "log", "lg", "ceil", "floor", "round"] {
        v.push((f, false, NUMS.to_vec(), vec![]));
    }
    v.push(("pow", false, NUMS.to_vec(), vec![NUMS.to_vec()]));
    v.push(("uomConvert", false, NUMS.to_vec(), vec![s.clone(), s.clone()]));
    for f in ["getDate", "getDayOfMonth", "getDayOfWeek", "getDayOfYear", "getFullYear", "getMonth"] {
        v.push((f, true, vec![Ty::Ts], vec![]));
        v.push((f, true, vec![Ty::Ts], vec![s.clone()]));
    }
    for f in ["getHours", "getMinutes", "getSeconds", "getMilliseconds"] {
        v.push((f, true, vec![Ty::Ts, Ty::Dur], vec![]));
        v.push((f, true, vec![Ty::Ts], vec![s.clone()]));
    }
    v
}

pub struct Shapes {
    pool: Vec<V>,
    names: Vec<&'static str>,
    docs: Vec<(&'static str, bool, Vec<Ty>, Vec<Vec<Ty>>)>,
    max_arity: u32,
}
impl Shapes {
    pub fn new(t: Tier) -> Shapes {
        let docs = documented();
        let mut names: Vec<&'static str> = docs.iter().map(|d| d.0).collect();
        names.dedup();
        names.sort();
        names.dedup();
        let pool = vec![
            V::Int(2),
            V::UInt(2),
            V::Dbl(2.0),
            V::Bool(true),
            V::s("UTC"),
            V::Bytes(vec![97]),
            V::list(&[V::Int(2), V::Int(1)]),
            V::map(&[("a", V::Int(1))]),
            V::Null,
            V::Ts(1_700_000_000 * NS),
            V::Dur(90 * NS),
            V::Type("int".into()),
        ];
        Shapes { pool, names, docs, max_arity: t.pick(3, 4) }
    }
    fn tuples(&self) -> u64 {
        (0..=self.max_arity).map(|a| (self.pool.len() as u64).pow(a)).sum()
    }
    pub fn size(&self) -> u64 {
        self.names.len() as u64 * self.tuples()
    }
    fn is_documented(&self, name: &str, method: bool, tys: &[Ty]) -> bool {
        self.docs.iter().any(|(n, m, first, rest)| {
            *n == name && *m == method && tys.len() == 1 + rest.len() && first.contains(&tys[0]) && rest.iter().zip(&tys[1..]).all(|(allowed, t)| allowed.contains(t))
        })
    }
    fn documented_form(&self, name: &str) -> Vec<bool> {
        let mut f: Vec<bool> = self.docs.iter().filter(|d| d.0 == name).map(|d| d.1).collect();
        f.dedup();
        f
    }
    pub fn run(&self, idx: u64, acc: &mut Acc) {
        let per = self.tuples();
        let name = self.names[(idx / per) as usize];
        let mut i = idx % per;
        let k = self.pool.len() as u64;
        let mut arity = 0;
        for a in 0..=self.max_arity {
            let c = k.pow(a);
            if i < c {
                arity = a;
                break;
            }
            i -= c;
        }
        let ds = unrank(i, &vec![k; arity as usize]);
        let args: Vec<&V> = ds.iter().map(|d| &self.pool[*d as usize]).collect();
        let tys: Vec<Ty> = args.iter().map(|v| ty_of(v)).collect();
        let names = ["a", "b", "c", "d"];
        let binds: Vec<(&str, V)> = args.iter().enumerate().map(|(j, v)| (names[j], (*v).clone())).collect();
        for method in self.documented_form(name) {
            if method && args.is_empty() {
                continue;
            }
            let src = if method { format!("a.{}({})", name, names[1..args.len()].join(", ")) } else { format!("{}({})", name, names[..args.len()].join(", ")) };
            let got = real::eval(&src, &binds);
            acc.eval();
            acc.class(&got.class());
            let case = || json!({"src": src, "arg_types": tys.iter().map(|t| format!("{:?}", t)).collect::<Vec<_>>()});
            if got.is_panic() {
                acc.violation(&format!("shape {} panic", name), case(), "a value or an error".into(), got.show());
                continue;
            }
            if tys.is_empty() || !self.is_documented(name, method, &tys) {
                acc.nontrivial(&(idx, method));
                if !got.is_fail() {
                    // trailing nulls are indistinguishable from missing arguments in the overload dispatch
                    let stripped: Vec<Ty> = {
                        let mut t = tys.clone();
                        while t.last() == Some(&Ty::Null) {
                            t.pop();
                        }
                        t
                    };
                    let kind = if stripped.len() < tys.len() && !stripped.is_empty() && self.is_documented(name, method, &stripped) {
                        format!("trailing-null-argument-accepted {}", name)
                    } else if method && tys[0] == Ty::Null && tys.len() > 1 && self.is_documented(name, false, &tys[1..]) {
                        // a free call passes null as the receiver, so null.f(x) is indistinguishable from f(x)
                        format!("null-receiver-treated-as-free-call {}", name)
                    } else {
                        format!("undocumented-shape-accepted {}", name)
                    };
                    acc.violation(&format!("shape {}", kind), case(), "Fail (undocumented arity or argument type)".into(), got.show());
                }
            }
        }
        if acc.wants_sample() {
            acc.sample(json!({"function": name, "arg_types": tys.iter().map(|t| format!("{:?}", t)).collect::<Vec<_>>()}));
        }
    }
}

pub fn replay_families(t: Tier) -> Vec<Family<'static>> {
    let p: &'static StrPairs = Box::leak(Box::new(StrPairs::new(t)));
    let u: &'static StrUnary = Box::leak(Box::new(StrUnary::new(t)));
    let r: &'static Regexes = Box::leak(Box::new(Regexes::new(t)));
    let m: &'static Math = Box::leak(Box::new(Math::new(t)));
    let s: &'static Shapes = Box::leak(Box::new(Shapes::new(t)));
    let cf: &'static CaseFold = Box::leak(Box::new(CaseFold::new(t)));
    let rf: &'static Reforming = Box::leak(Box::new(Reforming::new(t)));
    vec![
        Family::new("case-folding", cf.size(), move |i, a| cf.run(i, a)),
        Family::new("re-forming-occurrences", rf.size(), move |i, a| rf.run(i, a)),
        Family::new("string-pairs", p.size(), move |i, a| p.run(i, a)),
        Family::new("string-unary", u.size(), move |i, a| u.run(i, a)),
        Family::new("regex", r.size(), move |i, a| r.run(i, a)),
        Family::new("math", m.size(), move |i, a| m.run(i, a)),
        Family::new("shapes", s.size(), move |i, a| s.run(i, a)),
    ]
}

pub fn run(t: Tier) -> i32 {
    let mut rep = Report::new(ID, t, "exploration");
    rep.rule = "re-forming-occurrences: all strings up to length 6/9 over {a,b} and 4/6 over {é,ü} x all needles up to length 3 resp. 2 for remove/replace/split/rsplit/trim*Matches (taking one occurrence out can form another: one left-to-right pass); case-folding: all strings up to length 2/3 x all needles up to length 2 over {k, KELVIN SIGN, s, ß, capital ß, dotted capital I, i, combining dot, å, ANGSTROM SIGN} (lower-casing changes the UTF-8 length, so the order of the two lengths can flip) for the six containment functions in bound and literal form and toLower/toUpper; string-pairs: all strings up to length 3/4 over {a,b,A,blank,é,É,ß,İ} x all needles up to length 2 (empty, overlapping, absent, multi-byte, case-folding) for contains*/startsWith*/endsWith*/split/rsplit/replace/remove/trim*Matches against naive byte-window references; string-unary: toLower/toUpper/trim*/splitWhiteSpace/size and splitAt at every offset in [-2,len+2] and extreme ints; regex: 14 patterns (valid, invalid, oversized) x all strings up to length 2/3 x 5 replacement templates against the regex crate called directly; math: abs/sqrt/log/lg/ceil/floor/round over the numeric grid (bound and literal) and pow over all pairs of a 100-value grid against exact i128 / IEEE references; shapes: every documented function x every argument tuple of arity 0..3/4 over a one-value-per-type pool in its documented call form must fail unless the shape is documented. Non-trivial = outcome fixed by the property; distinct by index".to_string();
    for f in replay_families(t) {
        rep.run_family(f);
    }
    rep.assumptions = vec![
        "Rust's to_lowercase/to_uppercase define case folding; the regex crate defines regex semantics (search, not full match)".into(),
        "empty needles for split/replace/remove/trim*Matches, sqrt of negative ints, fractional/huge double exponents of integer bases, ceil/floor/round outside the int range are not fixed".into(),
        "the undocumented call form (e.g. contains('abc','a'), (1).abs()) is not fixed".into(),
    ];
    rep.finish()
}
