//! C16 — time arithmetic, calendar accessors, zones and unit conversion.
use crate::engine::*;
use crate::real::{self, Outcome};
use crate::val::{V, NS};
use chrono::{Offset, TimeZone};
use serde_json::json;

pub const ID: &str = "C16";

// ---- own calendar arithmetic (Hinnant) -------------------------------------------

fn days_from_civil(y: i64, m: i64, d: i64) -> i64 {
    let y = if m <= 2 { y - 1 } else { y };
    let era = y.div_euclid(400);
    let yoe = y - era * 400;
    let doy = (153 * (if m > 2 { m - 3 } else { m + 9 }) + 2) / 5 + d - 1;
    let doe = yoe * 365 + yoe / 4 - yoe / 100 + doy;
    era * 146097 + doe - 719468
}

fn civil_from_days(z: i64) -> (i64, i64, i64) {
    let z = z + 719468;
    let era = z.div_euclid(146097);
    let doe = z - era * 146097;
    let yoe = (doe - doe / 1460 + doe / 36524 - doe / 146096) / 365;
    let y = yoe + era * 400;
    let doy = doe - (365 * yoe + yoe / 4 - yoe / 100);
    let mp = (5 * doy + 2) / 153;
    let d = doy - (153 * mp + 2) / 5 + 1;
    let m = if mp < 10 { mp + 3 } else { mp - 9 };
    (if m <= 2 { y + 1 } else { y }, m, d)
}

const TS_ACCESSORS: [&str; 10] = [
    "getDate", "getDayOfMonth", "getDayOfWeek", "getDayOfYear", "getFullYear", "getHours", "getMilliseconds", "getMinutes", "getMonth", "getSeconds",
];

/// civil field of the local instant (ns since epoch, already shifted by the zone offset)
fn field(acc: &str, local_ns: i128) -> i64 {
    let secs = local_ns.div_euclid(NS) as i64;
    let nanos = local_ns.rem_euclid(NS) as i64;
    let days = secs.div_euclid(86400);
    let sod = secs.rem_euclid(86400);
    let (y, m, d) = civil_from_days(days);
    match acc {
        "getDate" => d,
        "getDayOfMonth" => d - 1,
        "getDayOfWeek" => (days + 4).rem_euclid(7), // 1970-01-01 was a Thursday; Sunday = 0
        "getDayOfYear" => days - days_from_civil(y, 1, 1),
        "getFullYear" => y,
        "getHours" => sod / 3600,
        "getMilliseconds" => nanos / 1_000_000,
        "getMinutes" => (sod % 3600) / 60,
        "getMonth" => m - 1,
        "getSeconds" => sod % 60,
        _ => unreachable!(),
    }
}

pub fn instants(t: Tier) -> Vec<i128> {
    let civil = |y: i64, m: i64, d: i64, h: i64, mi: i64, s: i64| -> i128 { (days_from_civil(y, m, d) * 86400 + h * 3600 + mi * 60 + s) as i128 };
    let mut base = vec![
        civil(1, 1, 1, 0, 0, 0),
        civil(1900, 2, 28, 23, 59, 59),
        civil(1900, 3, 1, 0, 0, 0),
        civil(1969, 12, 31, 23, 59, 59),
        civil(1970, 1, 1, 0, 0, 0),
        civil(2000, 2, 29, 12, 0, 0),
        civil(2023, 12, 31, 23, 59, 59),
        civil(2024, 1, 1, 0, 0, 0),
        civil(2024, 2, 29, 0, 0, 0),
        civil(2024, 3, 10, 9, 59, 59),
        civil(2024, 3, 10, 10, 0, 0),
        civil(2024, 11, 3, 8, 59, 59),
        civil(2024, 11, 3, 9, 0, 0),
        civil(2024, 3, 31, 0, 59, 59),
        civil(2024, 3, 31, 1, 0, 0),
        civil(2024, 6, 15, 11, 30, 15),
        civil(2023, 1, 10, 8, 0, 0),
        civil(9999, 12, 31, 23, 59, 59),
        civil(2100, 2, 28, 23, 0, 0),
        civil(1582, 10, 10, 0, 0, 0),
    ];
    if t == Tier::Thorough {
        // the first instant of every month and every weekday of one week, plus new-year edges
        for m in 1..=12 {
            base.push(civil(2023, m, 1, 0, 0, 0));
            base.push(civil(2024, m, 1, 0, 0, 0) - 1);
        }
        for d in 1..=7 {
            base.push(civil(2024, 9, d, 13, 14, 15));
        }
        for y in [-1, 0, 4, 100, 400, 1600, 2038, 30000, -30000] {
            base.push(civil(y, 1, 1, 0, 0, 0));
            base.push(civil(y, 12, 31, 23, 59, 59));
        }
    }
    let mut out = Vec::new();
    for s in base {
        for sub in [0i128, 1_000_000, 999_000_000, 999_999_999] {
            out.push(s * NS + sub);
        }
    }
    // ends of chrono's range
    out.push(-8_334_601_228_800 * NS);
    out.push(8_210_266_876_799 * NS + 999_999_999);
    out.sort();
    out.dedup();
    out
}

pub fn zones(t: Tier) -> Vec<String> {
    let all: Vec<String> = chrono_tz::TZ_VARIANTS.iter().map(|z| z.name().to_string()).collect();
    match t {
        Tier::Thorough => all,
        Tier::Quick => {
            // every 8th zone plus the ones with unusual offsets / DST rules
            let mut v: Vec<String> = all.iter().step_by(8).cloned().collect();
            for z in [
                "UTC", "US/Pacific", "America/Los_Angeles", "Europe/London", "Europe/Berlin", "Asia/Kolkata", "Asia/Kathmandu", "Australia/Lord_Howe",
                "Pacific/Chatham", "Pacific/Kiritimati", "Pacific/Apia", "America/St_Johns", "Africa/Casablanca", "HST", "Etc/GMT+12", "Etc/GMT-14", "Asia/Tehran",
            ] {
                if all.iter().any(|a| a == z) && !v.iter().any(|a| a == z) {
                    v.push(z.to_string());
                }
            }
            v
        }
    }
}

fn int_of(o: &Outcome) -> Option<i64> {
    match o.value() {
        Some(V::Int(i)) => Some(i),
        _ => None,
    }
}

pub struct Accessors {
    instants: Vec<i128>,
    zones: Vec<String>,
}
impl Accessors {
    pub fn new(t: Tier) -> Accessors {
        Accessors { instants: instants(t), zones: zones(t) }
    }
    pub fn size(&self) -> u64 {
        (self.instants.len() * (self.zones.len() + 1)) as u64
    }
    pub fn run(&self, idx: u64, acc: &mut Acc) {
        let nz = self.zones.len() + 1;
        let ns = self.instants[idx as usize / nz];
        let zi = idx as usize % nz;
        let tval = V::Ts(ns);
        if zi == self.zones.len() {
            // zone-less form: the UTC fields
            for a in TS_ACCESSORS {
                let src = format!("t.{}()", a);
                let got = real::eval(&src, &[("t", tval.clone())]);
                acc.eval();
                acc.class(&got.class());
                let want = field(a, ns);
                if int_of(&got) != Some(want) {
                    acc.violation(&format!("{}(timestamp) wrong-field", a), json!({"src": src, "t_ns": ns.to_string()}), format!("{}", want), got.show());
                }
            }
            acc.nontrivial(&idx);
            return;
        }
        let zone = &self.zones[zi];
        let tz: chrono_tz::Tz = zone.parse().expect("zone from the tz database");
        let secs = ns.div_euclid(NS) as i64;
        let naive = match chrono::DateTime::from_timestamp(secs, 0) {
            Some(d) => d.naive_utc(),
            None => return,
        };
        let offset = tz.offset_from_utc_datetime(&naive).fix().local_minus_utc() as i128;
        let local = ns + offset * NS;
        // local civil time must stay inside chrono's range, otherwise only totality is demanded
        let representable = local >= -8_334_601_228_800 * NS && local <= 8_210_266_876_799 * NS + 999_999_999;
        for a in TS_ACCESSORS {
            let src = format!("t.{}(z)", a);
            let got = real::eval(&src, &[("t", tval.clone()), ("z", V::s(zone))]);
            acc.eval();
            acc.class(&got.class());
            let case = || json!({"src": src, "t_ns": ns.to_string(), "zone": zone, "utc_offset_s": offset.to_string()});
            if got.is_panic() {
                acc.violation(&format!("{}(timestamp, zone) panic", a), case(), "a value or an error".into(), got.show());
                continue;
            }
            if !representable {
                continue;
            }
            let want = field(a, local);
            match int_of(&got) {
                Some(g) if g == want => {}
                Some(g) => {
                    // relation-level signature: how the observed field relates to the expected one
                    let rel = if g == want + 1 { "observed==expected+1".to_string() } else if g == want - 1 { "observed==expected-1".to_string() } else if g == field(a, ns) { "zone-ignored".to_string() } else { "other".to_string() };
                    acc.violation(&format!("{}(timestamp, zone) wrong-field {}", a, rel), case(), format!("{}", want), got.show());
                }
                None => acc.violation(&format!("{}(timestamp, zone) failed", a), case(), format!("{}", want), got.show()),
            }
        }
        if zone == "UTC" {
            acc.count("utc_zone_rows", 1);
        }
        acc.nontrivial(&idx);
        if acc.wants_sample() {
            acc.sample(json!({"t_ns": ns.to_string(), "zone": zone, "utc_offset_s": offset.to_string()}));
        }
    }
}

// ---- invalid zones, duration accessors ---------------------------------------------

pub struct Misc {
    durs: Vec<i128>,
}
const BAD_ZONES: [&str; 6] = ["Mars/Olympus", "Not/AZone", "", "Europe/Atlantis", "UTC+25", "America/"];
impl Misc {
    pub fn new() -> Misc {
        let mut durs = vec![0i128];
        for d in [1i128, 1_000_000, 999_000_000, NS, 59 * NS, 60 * NS, 3599 * NS, 3600 * NS, 86_400 * NS, 1_000_000_000 * NS, 1_500_000_000, 90 * NS + 250_000_000, 3_661 * NS + 5_000_000, i64::MAX as i128 * 1_000_000] {
            durs.push(d);
            durs.push(-d);
        }
        Misc { durs }
    }
    pub fn size(&self) -> u64 {
        (BAD_ZONES.len() + self.durs.len()) as u64
    }
    pub fn run(&self, idx: u64, acc: &mut Acc) {
        let i = idx as usize;
        if i < BAD_ZONES.len() {
            let z = BAD_ZONES[i];
            for a in TS_ACCESSORS {
                let src = format!("t.{}(z)", a);
                let got = real::eval(&src, &[("t", V::Ts(1_700_000_000 * NS)), ("z", V::s(z))]);
                acc.eval();
                acc.class(&got.class());
                if !got.is_fail() {
                    acc.violation(&format!("{}(timestamp, zone) unknown-zone-accepted", a), json!({"src": src, "zone": z}), "Fail".into(), got.show());
                }
            }
            acc.nontrivial(&idx);
        } else {
            let d = self.durs[i - BAD_ZONES.len()];
            // total whole hours / minutes / seconds truncated toward zero; sub-second part in ms with the sign of the duration
            let total_s = d / NS; // i128 division truncates toward zero
            let wants = [
                ("getHours", total_s / 3600),
                ("getMinutes", total_s / 60),
                ("getSeconds", total_s),
                ("getMilliseconds", (d % NS) / 1_000_000),
            ];
            for (a, want) in wants {
                let src = format!("d.{}()", a);
                let got = real::eval(&src, &[("d", V::Dur(d))]);
                acc.eval();
                acc.class(&got.class());
                if int_of(&got).map(|g| g as i128) != Some(want) {
                    acc.violation(&format!("{}(duration) wrong", a), json!({"src": src, "d_ns": d.to_string()}), format!("{}", want), got.show());
                }
            }
            acc.nontrivial(&idx);
        }
    }
}

// ---- arithmetic laws ------------------------------------------------------------------

pub struct Laws {
    ts: Vec<i128>,
    ds: Vec<i128>,
}
const TS_MIN: i128 = -8_334_601_228_800 * NS;
const TS_MAX: i128 = 8_210_266_876_799 * NS + 999_999_999;
const DUR_MAX: i128 = i64::MAX as i128 * 1_000_000; // chrono's TimeDelta::MAX is i64::MAX milliseconds

impl Laws {
    pub fn new(t: Tier) -> Laws {
        let mut ts: Vec<i128> = instants(Tier::Quick).into_iter().step_by(t.pick(5, 2)).collect();
        ts.push(TS_MIN);
        ts.push(TS_MAX);
        ts.sort();
        ts.dedup();
        let mut ds = vec![0i128];
        for d in [1i128, 1_000_000, 999_000_000, NS, 59 * NS, 3600 * NS, 86_400 * NS, 1_000_000_000 * NS, 200_000 * 365 * 86_400 * NS, i64::MAX as i128 * 1_000_000] {
            ds.push(d);
            ds.push(-d);
        }
        Laws { ts, ds }
    }
    pub fn size(&self) -> u64 {
        (self.ts.len() * self.ds.len() + self.ts.len() * self.ts.len() + self.ds.len() * self.ds.len()) as u64
    }
    fn expect_bool(acc: &mut Acc, site: &str, src: &str, binds: &[(&str, V)], want_value: bool) {
        let got = real::eval(src, binds);
        acc.eval();
        acc.class(&got.class());
        let case = json!({"src": src, "bindings": binds.iter().map(|(k, v)| json!([k, v.show()])).collect::<Vec<_>>()});
        if got.is_panic() {
            acc.violation(&format!("{} panic", site), case, "a value or an error".into(), got.show());
        } else if want_value {
            if !matches!(got.value(), Some(V::Bool(true))) {
                acc.violation(&format!("{} law-violated", site), case, "true".into(), got.show());
            }
        } else if !got.is_fail() {
            acc.violation(&format!("{} out-of-range-accepted", site), case, "Fail (result outside the representable range)".into(), got.show());
        }
    }
    pub fn run(&self, idx: u64, acc: &mut Acc) {
        let (nt, nd) = (self.ts.len() as u64, self.ds.len() as u64);
        if idx < nt * nd {
            let (t, d) = (self.ts[(idx / nd) as usize], self.ds[(idx % nd) as usize]);
            let b = [("t", V::Ts(t)), ("d", V::Dur(d))];
            let sum_ok = t + d >= TS_MIN && t + d <= TS_MAX;
            let diff_ok = t - d >= TS_MIN && t - d <= TS_MAX;
            Self::expect_bool(acc, "(t+d)-d==t", "(t + d) - d == t", &b, sum_ok);
            Self::expect_bool(acc, "(d+t)-d==t", "(d + t) - d == t", &b, sum_ok);
            Self::expect_bool(acc, "(t-d)+d==t", "(t - d) + d == t", &b, diff_ok);
            if sum_ok {
                // chronological order
                let src = if d > 0 { "t + d > t && t < t + d" } else if d < 0 { "t + d < t && t > t + d" } else { "t + d == t && t + d <= t && t + d >= t" };
                Self::expect_bool(acc, "order-of-t+d", src, &b, true);
                // the exact instant
                let got = real::eval("t + d", &b);
                acc.eval();
                if !got.value().map(|v| v.same(&V::Ts(t + d))).unwrap_or(false) {
                    acc.violation("t+d wrong-instant", json!({"t_ns": t.to_string(), "d_ns": d.to_string()}), V::Ts(t + d).show(), got.show());
                }
            }
        } else if idx < nt * nd + nt * nt {
            let i = idx - nt * nd;
            let (t1, t2) = (self.ts[(i / nt) as usize], self.ts[(i % nt) as usize]);
            let b = [("a", V::Ts(t1)), ("b", V::Ts(t2))];
            let ok = (t1 - t2).abs() <= DUR_MAX;
            Self::expect_bool(acc, "(t1-t2)+t2==t1", "(a - b) + b == a", &b, ok);
            let src = match t1.cmp(&t2) {
                std::cmp::Ordering::Less => "a < b && a <= b && !(a > b) && !(a >= b) && a != b",
                std::cmp::Ordering::Equal => "a == b && a <= b && a >= b && !(a < b) && !(a > b)",
                std::cmp::Ordering::Greater => "a > b && a >= b && !(a < b) && !(a <= b) && a != b",
            };
            Self::expect_bool(acc, "timestamp-order", src, &b, true);
            if ok {
                let got = real::eval("a - b", &b);
                acc.eval();
                if !got.value().map(|v| v.same(&V::Dur(t1 - t2))).unwrap_or(false) {
                    acc.violation("t1-t2 wrong-duration", json!({"a_ns": t1.to_string(), "b_ns": t2.to_string()}), V::Dur(t1 - t2).show(), got.show());
                }
            }
        } else {
            let i = idx - nt * nd - nt * nt;
            let (d1, d2) = (self.ds[(i / nd) as usize], self.ds[(i % nd) as usize]);
            let b = [("a", V::Dur(d1)), ("b", V::Dur(d2))];
            let ok = (d1 + d2).abs() <= DUR_MAX;
            Self::expect_bool(acc, "d1+d2-d2==d1", "a + b - b == a", &b, ok);
            let src = match d1.cmp(&d2) {
                std::cmp::Ordering::Less => "a < b && !(a >= b)",
                std::cmp::Ordering::Equal => "a == b && a <= b && a >= b",
                std::cmp::Ordering::Greater => "a > b && !(a <= b)",
            };
            Self::expect_bool(acc, "duration-order", src, &b, true);
        }
        acc.nontrivial(&idx);
        if acc.wants_sample() {
            acc.sample(json!({"index": idx}));
        }
    }
}

// ---- units --------------------------------------------------------------------------

#[derive(Clone, Copy, PartialEq, Debug)]
enum Cat {
    Mass,
    Volume,
    Speed,
    Temp,
}

/// (canonical unit, category, factor to SI, offset to SI) — value_si = (value + offset) * factor
fn unit_defs() -> Vec<(&'static str, Cat, f64, f64, Vec<&'static str>)> {
    const LB: f64 = 0.45359237;
    const GAL: f64 = 231.0 * 0.0254 * 0.0254 * 0.0254; // 231 cubic inches
    const DRY_GAL: f64 = 268.8025 * 0.0254 * 0.0254 * 0.0254;
    const FT: f64 = 0.3048;
    vec![
        ("kg", Cat::Mass, 1.0, 0.0, vec!["kg", "kilogram", "kilograms", " KG ", "Kilogram"]),
        ("g", Cat::Mass, 1e-3, 0.0, vec!["g", "gram", "grams"]),
        ("mg", Cat::Mass, 1e-6, 0.0, vec!["mg", "milligram", "milligrams"]),
        ("lb", Cat::Mass, LB, 0.0, vec!["lb", "lbs", "pound", "pounds"]),
        ("oz", Cat::Mass, LB / 16.0, 0.0, vec!["oz", "ounce", "ounces"]),
        ("stone", Cat::Mass, LB * 14.0, 0.0, vec!["stone", "st", "stones"]),
        ("slug", Cat::Mass, LB * 9.80665 / FT, 0.0, vec!["slug", "slugs"]),
        ("ton", Cat::Mass, 1000.0, 0.0, vec!["ton", "tonne", "metric_ton", "metric ton"]),
        ("l", Cat::Volume, 1e-3, 0.0, vec!["l", "liter", "liters", "litre", "litres", "L"]),
        ("ml", Cat::Volume, 1e-6, 0.0, vec!["ml", "milliliter", "milliliters", "millilitre", "millilitres"]),
        ("gal", Cat::Volume, GAL, 0.0, vec!["gal", "gallon", "gallons"]),
        ("quart", Cat::Volume, GAL / 4.0, 0.0, vec!["quart", "quarts", "qt", "qts", "liquid quart", "liquid_quart"]),
        ("dry quart", Cat::Volume, DRY_GAL / 4.0, 0.0, vec!["dry quart", "dry_quart"]),
        ("pint", Cat::Volume, GAL / 8.0, 0.0, vec!["pint", "pints", "pt", "pts", "liquid pint", "liquid_pint"]),
        ("dry pint", Cat::Volume, DRY_GAL / 8.0, 0.0, vec!["dry pint", "dry_pint"]),
        ("cup", Cat::Volume, GAL / 16.0, 0.0, vec!["cup", "cups"]),
        ("fl oz", Cat::Volume, GAL / 128.0, 0.0, vec!["fl oz", "floz", "fluid ounce", "fluid_ounce", "fluid-ounce"]),
        ("tbsp", Cat::Volume, GAL / 256.0, 0.0, vec!["tbsp", "tablespoon", "tablespoons"]),
        ("tsp", Cat::Volume, GAL / 768.0, 0.0, vec!["tsp", "teaspoon", "teaspoons"]),
        ("m3", Cat::Volume, 1.0, 0.0, vec!["cubic meter", "cubic_meter", "m3"]),
        ("ft3", Cat::Volume, FT * FT * FT, 0.0, vec!["cubic foot", "cubic_foot", "ft3", "cu ft"]),
        ("yd3", Cat::Volume, 27.0 * FT * FT * FT, 0.0, vec!["cubic yard", "cubic_yard", "yd3", "cu yd"]),
        ("m/s", Cat::Speed, 1.0, 0.0, vec!["m/s", "meter per second", "meters per second", "meter_per_second"]),
        ("km/h", Cat::Speed, 1000.0 / 3600.0, 0.0, vec!["km/h", "kph", "kilometer per hour", "kilometers per hour", "kilometer_per_hour"]),
        ("mph", Cat::Speed, 1609.344 / 3600.0, 0.0, vec!["mph", "mile per hour", "miles per hour", "mile_per_hour"]),
        ("kn", Cat::Speed, 1852.0 / 3600.0, 0.0, vec!["kn", "knot", "knots"]),
        ("ft/s", Cat::Speed, FT, 0.0, vec!["ft/s", "fps", "foot per second", "feet per second", "foot_per_second"]),
        ("k", Cat::Temp, 1.0, 0.0, vec!["k", "kelvin", "K"]),
        ("c", Cat::Temp, 1.0, 273.15, vec!["c", "celsius", "°C", "C"]),
        ("f", Cat::Temp, 5.0 / 9.0, 459.67, vec!["f", "fahrenheit", "°F"]),
    ]
}

const MAGS: [f64; 8] = [0.0, 1.0, -1.0, 2.5, 1e6, 1e-6, -40.0, 273.15];

fn close(a: f64, b: f64, rel: f64) -> bool {
    if a == b {
        return true;
    }
    let scale = a.abs().max(b.abs());
    (a - b).abs() <= rel * scale || (a - b).abs() <= 1e-9
}

fn dbl_of(o: &Outcome) -> Option<f64> {
    match o.value() {
        Some(V::Dbl(d)) => Some(d),
        _ => None,
    }
}

pub struct Units {
    spell: Vec<(usize, &'static str)>, // (index into defs, spelling)
    defs: Vec<(&'static str, Cat, f64, f64, Vec<&'static str>)>,
}
impl Units {
    pub fn new() -> Units {
        let defs = unit_defs();
        let mut spell = Vec::new();
        for (i, d) in defs.iter().enumerate() {
            for s in &d.4 {
                spell.push((i, *s));
            }
        }
        Units { spell, defs }
    }
    pub fn size(&self) -> u64 {
        (self.spell.len() * self.spell.len() + 6 * self.spell.len()) as u64 + (self.defs.len() * self.defs.len() * self.defs.len()) as u64
    }
    fn conv(v: &V, from: &str, to: &str) -> Outcome {
        real::eval("uomConvert(v, a, b)", &[("v", v.clone()), ("a", V::s(from)), ("b", V::s(to))])
    }
    pub fn run(&self, idx: u64, acc: &mut Acc) {
        let n = self.spell.len() as u64;
        if idx < n * n {
            let (ia, sa) = self.spell[(idx / n) as usize];
            let (ib, sb) = self.spell[(idx % n) as usize];
            let (da, db) = (&self.defs[ia], &self.defs[ib]);
            for m in MAGS {
                for v in [V::Dbl(m), V::Int(m as i64), V::UInt(m.abs() as u64)] {
                    let mag = match &v {
                        V::Dbl(d) => *d,
                        V::Int(i) => *i as f64,
                        V::UInt(u) => *u as f64,
                        _ => unreachable!(),
                    };
                    if !matches!(v, V::Dbl(_)) && mag != m {
                        continue; // the integer forms only for whole magnitudes
                    }
                    let got = Self::conv(&v, sa, sb);
                    acc.eval();
                    acc.class(&got.class());
                    let case = json!({"src": format!("uomConvert({}, '{}', '{}')", mag, sa, sb)});
                    if da.1 != db.1 {
                        if !got.is_fail() {
                            acc.violation("uomConvert incompatible-units-accepted", case, "Fail".into(), got.show());
                        }
                        continue;
                    }
                    let want = (mag + da.3) * da.2 / db.2 - db.3;
                    match dbl_of(&got) {
                        Some(g) => {
                            if ia == ib && !close(g, mag, 1e-12) {
                                acc.violation("uomConvert identity", case, format!("{}", mag), got.show());
                            } else if !close(g, want, 2e-6) {
                                acc.violation(&format!("uomConvert wrong-factor {}->{}", da.0, db.0), case, format!("{} (exact definition)", want), got.show());
                            } else {
                                // invertible
                                let back = Self::conv(&V::Dbl(g), sb, sa);
                                acc.eval();
                                if !dbl_of(&back).map(|b| close(b, mag, 1e-9)).unwrap_or(false) {
                                    acc.violation("uomConvert not-invertible", case, format!("{}", mag), back.show());
                                }
                            }
                        }
                        None => acc.violation("uomConvert failed", case, format!("{}", want), got.show()),
                    }
                }
            }
            acc.nontrivial(&idx);
        } else if idx < n * n + 6 * n {
            let i = idx - n * n;
            let (_, s) = self.spell[(i / 6) as usize];
            let bad = ["", "parsec", "kgg", "m", "s", "°"][(i % 6) as usize];
            for (a, b) in [(s, bad), (bad, s)] {
                let got = Self::conv(&V::Dbl(1.0), a, b);
                acc.eval();
                if !got.is_fail() {
                    acc.violation("uomConvert unknown-unit-accepted", json!({"from": a, "to": b}), "Fail".into(), got.show());
                }
            }
            // near misses of a known spelling (a letter more, a letter less, doubled) are unknown units
            if i % 6 == 0 {
                let norm = |x: &str| x.trim().to_lowercase().trim_matches('°').to_string();
                let known: Vec<String> = self.spell.iter().map(|(_, x)| norm(x)).collect();
                let mut near: Vec<String> = vec![format!("{}s", s), format!("{}S", s), format!("{}x", s), format!("x{}", s), format!("{}{}", s, s), format!("{}.", s), format!("{} s", s)];
                if s.chars().count() > 1 {
                    near.push(s.chars().skip(1).collect());
                    near.push(s.chars().take(s.chars().count() - 1).collect());
                }
                for m in near {
                    if known.contains(&norm(&m)) || norm(&m).is_empty() {
                        continue;
                    }
                    for (a, b) in [(m.as_str(), s), (s, m.as_str())] {
                        let got = Self::conv(&V::Dbl(1.5), a, b);
                        acc.eval();
                        if !got.is_fail() {
                            acc.violation("uomConvert near-miss-of-a-unit-name-accepted", json!({"from": a, "to": b}), "Fail".into(), got.show());
                        }
                    }
                }
            }
            // an unknown unit on both sides (equal, differing in case or blanks, or two unknowns)
            if i / 6 == 0 {
                let unknown = ["", "parsec", "kgg", "lightyear", "°", "Parsec", " parsec", "PARSEC"];
                for a in unknown {
                    for b in unknown {
                        for mag in [V::Dbl(1.0), V::Int(3), V::UInt(3)] {
                            let got = Self::conv(&mag, a, b);
                            acc.eval();
                            if !got.is_fail() {
                                acc.violation("uomConvert unknown-unit-on-both-sides-accepted", json!({"from": a, "to": b}), "Fail".into(), got.show());
                            }
                        }
                    }
                }
            }
            acc.nontrivial(&idx);

        } else {
            // transitivity over canonical spellings: a->b->c == a->c
            let i = idx - n * n - 6 * n;
            let k = self.defs.len() as u64;
            let d = unrank(i, &[k, k, k]);
            let (a, b, c) = (&self.defs[d[0] as usize], &self.defs[d[1] as usize], &self.defs[d[2] as usize]);
            if a.1 != b.1 || b.1 != c.1 {
                return;
            }
            for m in [1.0, 2.5, -40.0, 1e6] {
                let ab = dbl_of(&Self::conv(&V::Dbl(m), a.0, b.0));
                let ac = dbl_of(&Self::conv(&V::Dbl(m), a.0, c.0));
                let abc = ab.and_then(|x| dbl_of(&Self::conv(&V::Dbl(x), b.0, c.0)));
                acc.evals(3);
                match (ac, abc) {
                    (Some(x), Some(y)) if close(x, y, 1e-9) => {}
                    _ => acc.violation("uomConvert not-transitive", json!({"a": a.0, "b": b.0, "c": c.0, "magnitude": m}), format!("{:?}", ac), format!("{:?}", abc)),
                }
            }
            acc.nontrivial(&idx);
        }
    }
}

/// every quoted unit spelling in the repository's table must be in ours (else note it)
fn unit_table_drift() -> Vec<String> {
    let text = std::fs::read_to_string("/repo/rscel/src/context/default_funcs/uom.rs").unwrap_or_default();
    let start = text.find("fn from_str").unwrap_or(0);
    let end = text[start..].find("enum MassUnit").map(|e| start + e).unwrap_or(text.len());
    let re = regex::Regex::new(r#""([^"]+)""#).unwrap();
    let mine: Vec<String> = unit_defs().iter().flat_map(|d| d.4.iter().map(|s| s.trim().to_lowercase().trim_matches('°').to_string()).collect::<Vec<_>>()).collect();
    let mut missing = Vec::new();
    for c in re.captures_iter(&text[start..end]) {
        let s = c[1].to_string();
        if !mine.contains(&s) {
            missing.push(s);
        }
    }
    missing
}

pub fn replay_families(t: Tier) -> Vec<Family<'static>> {
    let a: &'static Accessors = Box::leak(Box::new(Accessors::new(t)));
    let m: &'static Misc = Box::leak(Box::new(Misc::new()));
    let l: &'static Laws = Box::leak(Box::new(Laws::new(t)));
    let u: &'static Units = Box::leak(Box::new(Units::new()));
    vec![
        Family::new("accessors", a.size(), move |i, x| a.run(i, x)),
        Family::new("zones-durations", m.size(), move |i, x| m.run(i, x)),
        Family::new("laws", l.size(), move |i, x| l.run(i, x)),
        Family::new("units", u.size(), move |i, x| u.run(i, x)),
    ]
}

pub fn run(t: Tier) -> i32 {
    let mut rep = Report::new(ID, t, "exploration");
    rep.rule = "accessors: every boundary instant (year 1, 1900/2000/2024 leap edges, epoch, US and EU DST transition seconds, 9999, chrono's ends) x 4 sub-second parts x every zone of the tz database (quick: every 8th plus the unusual ones) x the 10 accessors, against own civil arithmetic from days-since-epoch with the zone offset looked up in chrono-tz, plus the zone-less form; unknown zones must fail; duration accessors over signed boundary durations; laws: (t+d)-d==t, (t1-t2)+t2==t1, d1+d2-d2==d1, chronological order and exact results over all pairs, out-of-range results must fail; units: every accepted spelling pair x 8 magnitudes x int/uint/double (identity, exact definition within 2e-6, inverse), unknown units incl. every near miss of an accepted spelling (a letter more or less, doubled, a trailing point), transitivity over all unit triples. Non-trivial = every case; distinct by index".to_string();
    for f in replay_families(t) {
        rep.run_family(f);
    }
    let drift = unit_table_drift();
    rep.set("unit_spellings_in_repo_not_in_check", json!(drift));
    rep.set("zones", json!(zones(t).len()));
    rep.assumptions = vec![
        "zone offsets come from chrono-tz (trusted tz database); the civil fields are computed by the check".into(),
        "uom's 7-digit NIST constants are accepted within 2e-6 relative of the exact definitions".into(),
        "case variants of zone names and fixed-offset zones are not demanded either way".into(),
    ];
    rep.finish()
}
