//! C13 — literals denote exactly the value they spell; out-of-range ones are rejected.
use crate::engine::*;
use crate::grids::*;
use crate::real::{self, Outcome};
use crate::val::V;
use serde_json::json;

pub const ID: &str = "C13";

#[derive(Clone, Debug)]
enum Want {
    Val(V),
    Reject,
}

fn judge(acc: &mut Acc, site: &str, src: &str, want: &Want) {
    let got = real::eval(src, &[]);
    acc.eval();
    acc.class(&got.class());
    let case = json!({"src": src});
    match (&got, want) {
        (Outcome::Panic { .. }, _) => acc.violation(&format!("{} panic", site), case, format!("{:?}", want), got.show()),
        (_, Want::Val(v)) => match got.value() {
            Some(g) if g.same(v) => {}
            Some(_) => acc.violation(&format!("{} wrong-value", site), case, v.show(), got.show()),
            None => {
                let k = if got.is_compile_fail() { "rejected" } else { "failed" };
                acc.violation(&format!("{} {}", site, k), case, v.show(), got.show())
            }
        },
        (_, Want::Reject) => {
            if !matches!(got, Outcome::CompileFail { .. }) {
                acc.violation(&format!("{} accepted", site), case, "a syntax error".into(), got.show());
            }
        }
    }
    if acc.wants_sample() {
        acc.sample(json!({"src": src, "expected": format!("{:?}", want).chars().take(120).collect::<String>(), "observed": got.show()}));
    }
}

// ---- integers ---------------------------------------------------------------

fn mixed_case(s: &str) -> String {
    s.chars().enumerate().map(|(i, c)| if i % 2 == 0 { c.to_ascii_uppercase() } else { c.to_ascii_lowercase() }).collect()
}

fn int_spellings(mag: u128) -> Vec<(&'static str, String)> {
    let hx = format!("{:x}", mag);
    vec![
        ("dec", format!("{}", mag)),
        ("hex-lower", format!("0x{}", hx)),
        ("hex-upper", format!("0x{}", hx.to_uppercase())),
        ("hex-mixed", format!("0x{}", mixed_case(&hx))),
        ("hex-0X", format!("0X{}", hx)),
    ]
}

pub struct Ints {
    ints: Vec<i64>,
    uints: Vec<u64>,
}
impl Ints {
    pub fn new(_t: Tier) -> Ints {
        // the dense grid is cheap: always use it
        Ints { ints: int_grid(Tier::Thorough), uints: uint_grid(Tier::Thorough) }
    }
    pub fn size(&self) -> u64 {
        (self.ints.len() + self.uints.len() + 1) as u64
    }
    pub fn run(&self, idx: u64, acc: &mut Acc) {
        let idx = idx as usize;
        if idx < self.ints.len() {
            let v = self.ints[idx];
            let mag = (v as i128).unsigned_abs();
            for (name, sp) in int_spellings(mag) {
                let (src, site) = if v < 0 {
                    (format!("-{}", sp), if v == i64::MIN { format!("int-literal-min {}", name) } else { format!("int-literal-negative {}", name) })
                } else {
                    (sp, format!("int-literal {}", name))
                };
                judge(acc, &site, &src, &Want::Val(V::Int(v)));
                acc.nontrivial(&src);
            }
        } else if idx < self.ints.len() + self.uints.len() {
            let v = self.uints[idx - self.ints.len()];
            for (name, sp) in int_spellings(v as u128) {
                for suf in ["u", "U"] {
                    let src = format!("{}{}", sp, suf);
                    judge(acc, &format!("uint-literal {}", name), &src, &Want::Val(V::UInt(v)));
                    acc.nontrivial(&src);
                }
            }
        } else {
            // the first values outside each type's range
            let two63: u128 = 1 << 63;
            let two64: u128 = 1 << 64;
            for (mag, suffix, what) in [
                (two63, "", "2^63 without suffix"),
                (two63 + 1, "", "2^63+1 without suffix"),
                (two64 - 1, "", "2^64-1 without suffix"),
                (two64, "", "2^64 without suffix"),
                (two64, "u", "2^64 with u"),
                (two64 + 1, "u", "2^64+1 with u"),
                (two64 * 16, "u", "2^68 with u"),
                (two64 * 16, "", "2^68 without suffix"),
            ] {
                for (name, sp) in int_spellings(mag) {
                    let src = format!("{}{}", sp, suffix);
                    let _ = what;
                    judge(acc, &format!("out-of-range-int-literal {}{}", name, if suffix.is_empty() { "" } else { " u" }), &src, &Want::Reject);
                    acc.nontrivial(&src);
                }
            }
            // -(2^63+1) is out of range too
            judge(acc, "out-of-range-int-literal negative", "-9223372036854775809", &Want::Reject);
            for (src, v) in [("true", V::Bool(true)), ("false", V::Bool(false)), ("null", V::Null)] {
                judge(acc, "keyword-literal", src, &Want::Val(v));
                acc.nontrivial(src);
            }
        }
    }
}

// ---- doubles ------------------------------------------------------------------

const MANTS: [u64; 10] = [
    0,
    1,
    0x000f_ffff_ffff_ffff,
    0x0008_0000_0000_0000,
    0x0005_5555_5555_5555,
    0x000a_aaaa_aaaa_aaaa,
    0x0009_21fb_5444_2d18,
    0x0003_243f_6a88_85a3,
    0x0000_0000_0000_0400,
    0x000f_ffff_ffff_fffe,
];

fn plain_decimal(d: f64) -> String {
    let mut s = format!("{}", d);
    if !s.contains('.') {
        s.push_str(".0");
    }
    s
}

fn dbl_spellings(d: f64) -> Vec<(&'static str, String)> {
    // d is finite and non-negative here
    let sci = format!("{:e}", d);
    let sci17 = format!("{:.16e}", d);
    let plus = if let Some((m, e)) = sci.split_once('e') {
        if e.starts_with('-') { sci.clone() } else { format!("{}e+{}", m, e) }
    } else {
        sci.clone()
    };
    let mut out = vec![
        ("shortest-sci", sci.clone()),
        ("sci-upper-E", sci.to_uppercase()),
        ("sci-plus", plus),
        ("17-digits-sci", sci17),
    ];
    // plain decimal forms are long for extreme exponents but still exact
    let plain = plain_decimal(d);
    if plain.len() < 400 {
        if let Some(rest) = plain.strip_prefix("0.") {
            out.push(("leading-dot", format!(".{}", rest)));
        }
        if let Some(int) = plain.strip_suffix(".0") {
            out.push(("trailing-dot", format!("{}.", int)));
        }
        out.push(("plain-decimal", plain));
    }
    out
}

pub struct Dbls {
    exps: Vec<u64>,
}
impl Dbls {
    pub fn new(t: Tier) -> Dbls {
        let exps: Vec<u64> = match t {
            Tier::Thorough => (0..=2046).collect(),
            // quick: subnormals, the ends, around 2^0, 2^52..2^64, and every 16th exponent
            Tier::Quick => (0..=2046u64).filter(|e| *e < 4 || *e > 2042 || (1020..=1090).contains(e) || e % 16 == 0).collect(),
        };
        Dbls { exps }
    }
    pub fn size(&self) -> u64 {
        (self.exps.len() * MANTS.len()) as u64
    }
    pub fn run(&self, idx: u64, acc: &mut Acc) {
        let e = self.exps[idx as usize / MANTS.len()];
        let m = MANTS[idx as usize % MANTS.len()];
        let d = f64::from_bits((e << 52) | m);
        for (name, sp) in dbl_spellings(d) {
            judge(acc, &format!("double-literal {}", name), &sp, &Want::Val(V::Dbl(d)));
            acc.nontrivial(&sp);
            let neg = format!("-{}", sp);
            judge(acc, &format!("double-literal-negative {}", name), &neg, &Want::Val(V::Dbl(-d)));
            acc.nontrivial(&neg);
        }
    }
}

// ---- strings -------------------------------------------------------------------

const CHARS: [char; 12] = ['a', '\'', '"', '\\', '\n', '\r', '\t', '\0', '{', 'é', '\u{ffff}', '\u{1F600}'];

#[derive(Clone, Copy, Debug, PartialEq, Eq, Hash)]
enum Esc {
    Raw,
    Named,
    X2,
    X2Upper,
    U4,
    U8,
    Oct,
}
const ESCS: [Esc; 7] = [Esc::Raw, Esc::Named, Esc::X2, Esc::X2Upper, Esc::U4, Esc::U8, Esc::Oct];

fn named(c: char) -> Option<&'static str> {
    Some(match c {
        '\u{7}' => "\\a",
        '\u{8}' => "\\b",
        '\u{c}' => "\\f",
        '\n' => "\\n",
        '\r' => "\\r",
        '\t' => "\\t",
        '\u{b}' => "\\v",
        '\\' => "\\\\",
        '\'' => "\\'",
        '"' => "\\\"",
        '?' => "\\?",
        '`' => "\\`",
        _ => return None,
    })
}

/// spelling of one character inside a quoted (non-raw) string, if this form applies
fn spell(c: char, e: Esc, quote: char, fmt: bool) -> Option<String> {
    let cp = c as u32;
    let s = match e {
        Esc::Raw => {
            if c == quote || c == '\\' {
                return None;
            }
            if fmt && (c == '{' || c == '}') {
                format!("{0}{0}", c)
            } else {
                c.to_string()
            }
        }
        Esc::Named => named(c)?.to_string(),
        Esc::X2 => {
            if cp > 0xff {
                return None;
            }
            format!("\\x{:02x}", cp)
        }
        Esc::X2Upper => {
            if cp > 0xff {
                return None;
            }
            format!("\\X{:02X}", cp)
        }
        Esc::U4 => {
            if cp > 0xffff {
                return None;
            }
            format!("\\u{:04x}", cp)
        }
        Esc::U8 => format!("\\U{:08X}", cp),
        Esc::Oct => {
            if cp > 0o777 {
                return None;
            }
            format!("\\{:03o}", cp)
        }
    };
    Some(s)
}

pub struct Strs {
    maxlen: u32,
}
impl Strs {
    pub fn new(t: Tier) -> Strs {
        Strs { maxlen: t.pick(2, 4) }
    }
    fn k(&self) -> u64 {
        (CHARS.len() * ESCS.len()) as u64
    }
    pub fn size(&self) -> u64 {
        (0..=self.maxlen).map(|l| self.k().pow(l)).sum()
    }
    pub fn run(&self, mut idx: u64, acc: &mut Acc) {
        let k = self.k();
        let mut len = 0;
        for l in 0..=self.maxlen {
            let c = k.pow(l);
            if idx < c {
                len = l;
                break;
            }
            idx -= c;
        }
        let mut items = Vec::new();
        for _ in 0..len {
            let d = (idx % k) as usize;
            idx /= k;
            items.push((CHARS[d / ESCS.len()], ESCS[d % ESCS.len()]));
        }
        let value: String = items.iter().map(|(c, _)| *c).collect();
        for quote in ['\'', '"'] {
            // plain and f-prefixed
            for (prefix, fmt) in [("", false), ("f", true)] {
                let mut body = String::new();
                let mut ok = true;
                for (c, e) in &items {
                    match spell(*c, *e, quote, fmt) {
                        Some(s) => body.push_str(&s),
                        None => {
                            ok = false;
                            break;
                        }
                    }
                }
                if !ok {
                    continue;
                }
                let src = format!("{}{}{}{}", prefix, quote, body, quote);
                let site = format!("string-literal{}", if fmt { " f-prefix" } else { "" });
                judge(acc, &site, &src, &Want::Val(V::Str(value.clone())));
                acc.nontrivial(&src);
            }
            // raw prefix: only when every character is spelled raw; backslash is an ordinary character
            if items.iter().all(|(_, e)| *e == Esc::Raw) && !value.contains(quote) {
                let src = format!("r{}{}{}", quote, value, quote);
                judge(acc, "string-literal r-prefix", &src, &Want::Val(V::Str(value.clone())));
                acc.nontrivial(&src);
            }
        }
    }
}

// ---- bytes -----------------------------------------------------------------------

pub struct Bytes;
const PAIR_BYTES: [u8; 6] = [0, 0x27, 0x5c, 0x61, 0x7f, 0xff];
const RAW_BYTE_TEXTS: [&str; 8] = ["é", "ÿ", "\u{80}", "日", "😀", "é日", "a\u{ff}b", "\u{7ff}\u{800}"];
impl Bytes {
    pub fn size(&self) -> u64 {
        256 + 36 + RAW_BYTE_TEXTS.len() as u64
    }
    fn spellings(b: u8) -> Vec<String> {
        let mut v = vec![format!("\\x{:02x}", b), format!("\\X{:02X}", b), format!("\\{:03o}", b)];
        if (0x20..0x7f).contains(&b) && b != b'\'' && b != b'"' && b != b'\\' {
            v.push((b as char).to_string());
        }
        if let Some(n) = named(b as char) {
            if b < 0x80 && b != b'?' && b != b'`' {
                v.push(n.to_string());
            }
        }
        v
    }
    pub fn run(&self, idx: u64, acc: &mut Acc) {
        if idx < 256 {
            let b = idx as u8;
            for sp in Self::spellings(b) {
                for q in ['\'', '"'] {
                    let src = format!("b{}{}{}", q, sp, q);
                    judge(acc, "bytes-literal", &src, &Want::Val(V::Bytes(vec![b])));
                    acc.nontrivial(&src);
                }
            }
        } else if idx >= 256 + 36 {
            // characters above U+007F written as they are: the literal holds their UTF-8 encoding
            let t = RAW_BYTE_TEXTS[(idx - 256 - 36) as usize];
            for q in ['\'', '"'] {
                for (pre, post) in [("", ""), ("a", ""), ("", "\\x00"), ("\\xff", "z")] {
                    let src = format!("b{}{}{}{}{}", q, pre, t, post, q);
                    let mut want: Vec<u8> = Vec::new();
                    if pre == "a" {
                        want.push(b'a');
                    } else if !pre.is_empty() {
                        want.push(0xff);
                    }
                    want.extend(t.as_bytes());
                    if post == "z" {
                        want.push(b'z');
                    } else if !post.is_empty() {
                        want.push(0);
                    }
                    judge(acc, "bytes-literal with a raw non-ASCII character", &src, &Want::Val(V::Bytes(want)));
                    acc.nontrivial(&src);
                }
            }
        } else {
            let i = (idx - 256) as usize;
            let (x, y) = (PAIR_BYTES[i / 6], PAIR_BYTES[i % 6]);
            for sx in Self::spellings(x) {
                for sy in Self::spellings(y) {
                    let src = format!("b'{}{}'", sx, sy);
                    judge(acc, "bytes-literal", &src, &Want::Val(V::Bytes(vec![x, y])));
                    acc.nontrivial(&src);
                }
            }
        }
    }
}

// ---- rejections -------------------------------------------------------------------

pub struct Rejects {
    cases: Vec<(String, String)>,
}
impl Rejects {
    pub fn new() -> Rejects {
        let mut cases: Vec<(String, String)> = Vec::new();
        // every proper prefix of every multi-character escape form, closed by the quote or cut by end of input
        let full = ["\\x41", "\\X41", "\\u0041", "\\U00000041", "\\101"];
        for f in full {
            for cut in 1..f.len() {
                let p = &f[..cut];
                // a lone backslash followed by the quote escapes the quote: unterminated, still a rejection
                for (site, src) in [
                    ("truncated-escape closed", format!("'{}'", p)),
                    ("truncated-escape end-of-input", format!("'{}", p)),
                    ("truncated-escape closed dq", format!("\"{}\"", p)),
                ] {
                    // "\1" + quote etc. Octal prefixes "\1", "\10"; hex prefixes "\x", "\x4" ...
                    cases.push((site.to_string(), src));
                }
                if !f.starts_with("\\u") && !f.starts_with("\\U") {
                    cases.push(("truncated-escape bytes".to_string(), format!("b'{}'", p)));
                    cases.push(("truncated-escape bytes end-of-input".to_string(), format!("b'{}", p)));
                }
            }
        }
        for cp in ["d800", "dbff", "dc00", "dfff"] {
            cases.push(("surrogate \\u".to_string(), format!("'\\u{}'", cp)));
            cases.push(("surrogate \\U".to_string(), format!("'\\U0000{}'", cp)));
        }
        for cp in ["00110000", "ffffffff", "7fffffff", "80000000"] {
            cases.push(("invalid-code-point \\U".to_string(), format!("'\\U{}'", cp)));
        }
        for s in ["b'\\8'", "b'\\400'", "b'\\777'", "b'\\x4g'", "'\\xg1'", "'\\u00g1'", "'\\18a'", "b'\\089'"] {
            cases.push(("malformed-escape".to_string(), s.to_string()));
        }
        for s in ["'abc", "\"abc", "b'abc", "r'abc", "f'abc", "'", "\"", "'a\"", "f'{'", "f'{}'", "f'}'", "f'{a'"] {
            cases.push(("unterminated-literal".to_string(), s.to_string()));
        }
        Rejects { cases }
    }
    pub fn size(&self) -> u64 {
        self.cases.len() as u64
    }
    pub fn run(&self, idx: u64, acc: &mut Acc) {
        let (site, src) = &self.cases[idx as usize];
        judge(acc, site, src, &Want::Reject);
        acc.nontrivial(src);
    }
}

// ---- sequences of literals in one expression (state carried from one literal to the next) -----

fn seq_pool() -> Vec<(&'static str, Want)> {
    vec![
        ("-9223372036854775808", Want::Val(V::Int(i64::MIN))),
        ("9223372036854775808", Want::Reject),
        ("9223372036854775807", Want::Val(V::Int(i64::MAX))),
        ("-9223372036854775807", Want::Val(V::Int(-i64::MAX))),
        ("0x8000000000000000", Want::Reject),
        ("-0x8000000000000000", Want::Val(V::Int(i64::MIN))),
        ("- 9223372036854775808", Want::Val(V::Int(i64::MIN))),
        ("-(9223372036854775808)", Want::Reject),
        ("9223372036854775808u", Want::Val(V::UInt(1 << 63))),
        ("18446744073709551615u", Want::Val(V::UInt(u64::MAX))),
        ("18446744073709551616u", Want::Reject),
        ("-1", Want::Val(V::Int(-1))),
        ("0xff", Want::Val(V::Int(255))),
        ("0XFu", Want::Val(V::UInt(15))),
        ("1.5", Want::Val(V::Dbl(1.5))),
        ("-1e3", Want::Val(V::Dbl(-1000.0))),
        ("9223372036854775808.0", Want::Val(V::Dbl(9223372036854775808.0))),
        ("'a'", Want::Val(V::s("a"))),
        ("\"\\x41\"", Want::Val(V::s("A"))),
        ("b'\\377'", Want::Val(V::Bytes(vec![255]))),
        ("r'\\n'", Want::Val(V::s("\\n"))),
        ("'\\ud800'", Want::Reject),
        ("true", Want::Val(V::Bool(true))),
        ("null", Want::Val(V::Null)),
    ]
}

pub struct Seqs {
    pool: Vec<(&'static str, Want)>,
}
impl Seqs {
    fn new() -> Seqs {
        Seqs { pool: seq_pool() }
    }
    fn size(&self) -> u64 {
        let n = self.pool.len() as u64;
        n * n + n * n * n
    }
    fn run(&self, idx: u64, acc: &mut Acc) {
        let n = self.pool.len() as u64;
        let ds = if idx < n * n { unrank(idx, &[n, n]) } else { unrank(idx - n * n, &[n, n, n]) };
        let items: Vec<&(&'static str, Want)> = ds.iter().map(|d| &self.pool[*d as usize]).collect();
        let src = format!("[{}]", items.iter().map(|i| i.0).collect::<Vec<_>>().join(", "));
        let mut vals = Vec::new();
        let mut reject = false;
        for it in &items {
            match &it.1 {
                Want::Val(v) => vals.push(v.clone()),
                Want::Reject => reject = true,
            }
        }
        let want = if reject { Want::Reject } else { Want::Val(V::List(vals)) };
        let site = if reject { "literal-sequence with-an-out-of-range-or-malformed-literal" } else { "literal-sequence" };
        judge(acc, site, &src, &want);
        acc.nontrivial(&src);
    }
}

// ---- numeric literals directly next to operators (no blanks): the lexer must end the literal ----

fn adjacent_pool() -> Vec<(&'static str, V)> {
    vec![
        ("1", V::Int(1)),
        ("100", V::Int(100)),
        ("0x1e", V::Int(30)),
        ("0X1E", V::Int(30)),
        ("0xfe", V::Int(254)),
        ("7u", V::UInt(7)),
        ("0xeu", V::UInt(14)),
        ("0x1eU", V::UInt(30)),
        ("1.5", V::Dbl(1.5)),
        ("0.5", V::Dbl(0.5)),
        ("1e3", V::Dbl(1000.0)),
        ("1E3", V::Dbl(1000.0)),
        ("1.5e-3", V::Dbl(0.0015)),
        ("2e+2", V::Dbl(200.0)),
        ("9223372036854775807", V::Int(i64::MAX)),
        ("18446744073709551615u", V::UInt(u64::MAX)),
    ]
}
const ADJ_OPS: [&str; 11] = ["+", "-", "*", "/", "%", "==", "!=", "<", "<=", ">", ">="];

fn run_adjacent(idx: u64, acc: &mut Acc) {
    use crate::refmodel::{self, Arith, CmpRes, Exp};
    let pool = adjacent_pool();
    let n = pool.len() as u64;
    let d = unrank(idx, &[n, n, ADJ_OPS.len() as u64]);
    let (sa, va) = &pool[d[0] as usize];
    let (sb, vb) = &pool[d[1] as usize];
    let op = ADJ_OPS[d[2] as usize];
    let exp: Exp = match op {
        "+" => refmodel::arith(Arith::Add, va, vb),
        "-" => refmodel::arith(Arith::Sub, va, vb),
        "*" => refmodel::arith(Arith::Mul, va, vb),
        "/" => refmodel::arith(Arith::Div, va, vb),
        "%" => refmodel::arith(Arith::Rem, va, vb),
        "==" | "!=" => match refmodel::eq(va, vb) {
            Some(e) => Exp::Val(V::Bool(if op == "==" { e } else { !e })),
            None => Exp::Unspec,
        },
        _ => match refmodel::cmp(va, vb) {
            CmpRes::Ord(o) => {
                use std::cmp::Ordering::*;
                Exp::Val(V::Bool(match op {
                    "<" => o == Less,
                    "<=" => o != Greater,
                    ">" => o == Greater,
                    _ => o != Less,
                }))
            }
            _ => Exp::Unspec,
        },
    };
    for (layout, src) in [("no-blanks", format!("{}{}{}", sa, op, sb)), ("blanks", format!("{} {} {}", sa, op, sb)), ("newlines", format!("{}\n{}\n{}", sa, op, sb))] {
        let got = real::eval(&src, &[]);
        acc.eval();
        acc.class(&got.class());
        let ok = match (&exp, &got) {
            (_, Outcome::Panic { .. }) => false,
            (Exp::Unspec, o) => !o.is_compile_fail(),
            (Exp::Fail, Outcome::Fail(..)) => true,
            (Exp::Val(v), o) => matches!(o.value(), Some(g) if g.same(v)),
            _ => false,
        };
        if !ok {
            acc.violation(
                &format!("numeric-literal-next-to-operator [{}] {}", layout, if got.is_compile_fail() { "rejected" } else { "wrong-value" }),
                json!({"src": src}),
                exp.show(),
                got.show(),
            );
        }
    }
    acc.nontrivial(&("adjacent", idx));
    if acc.wants_sample() {
        acc.sample(json!({"src": format!("{}{}{}", sa, op, sb), "expected": exp.show()}));
    }
}

fn adjacent_size() -> u64 {
    let n = adjacent_pool().len() as u64;
    n * n * ADJ_OPS.len() as u64
}

pub fn replay_families(t: Tier) -> Vec<Family<'static>> {
    let q: &'static Seqs = Box::leak(Box::new(Seqs::new()));
    let i: &'static Ints = Box::leak(Box::new(Ints::new(t)));
    let d: &'static Dbls = Box::leak(Box::new(Dbls::new(t)));
    let s: &'static Strs = Box::leak(Box::new(Strs::new(t)));
    let r: &'static Rejects = Box::leak(Box::new(Rejects::new()));
    vec![
        Family::new("ints", i.size(), move |x, a| i.run(x, a)),
        Family::new("doubles", d.size(), move |x, a| d.run(x, a)),
        Family::new("strings", s.size(), move |x, a| s.run(x, a)),
        Family::new("bytes", Bytes.size(), move |x, a| Bytes.run(x, a)),
        Family::new("rejects", r.size(), move |x, a| r.run(x, a)),
        Family::new("sequences", q.size(), move |x, a| q.run(x, a)),
        Family::new("adjacent-operators", adjacent_size(), run_adjacent),
    ]
}

pub fn run(t: Tier) -> i32 {
    let mut rep = Report::new(ID, t, "exploration");
    rep.rule = "ints/uints: every +-2^k, +-2^k+-1 (k<=63/64) and boundary value in decimal and four hexadecimal spellings, u/U suffixes, negatives through unary minus, plus the first out-of-range magnitudes; doubles: sign x finite exponents (all 2047 in thorough) x 10 mantissa patterns x up to 7 spellings (shortest and 17-digit scientific, E/e, explicit +, plain decimal, leading/trailing dot); strings: all strings up to the length bound over 12 characters (quotes, backslash, LF, CR - so CR LF pairs occur verbatim -, TAB, NUL, brace, 2/3/4-byte UTF-8) with every applicable escape form per character, both quotes, plain/f/r prefixes; bytes: all 256 single bytes in every spelling, all pairs over 6 bytes, and 8 texts of characters above U+007F written raw (2-, 3- and 4-byte encodings) alone and next to escapes; rejections: every proper prefix of every escape form, surrogates, code points above 10FFFF, malformed octal; sequences: all ordered pairs and triples of 24 literal spellings (int/uint extremes in decimal and hex, the minimum int with and without a blank or parentheses after the minus, doubles, strings, bytes, raw strings, a surrogate escape) inside one list literal - a sequence with a rejected literal must be rejected as a whole, otherwise it is the list of the spelled values; adjacent-operators: all ordered pairs of 16 numeric spellings (decimal, hexadecimal ending in e, u-suffixed, exponent forms) joined by each of 11 operators without blanks, with blanks and with newlines - the literal must end where the operator starts. The generator knows
 the value it spelled; the result must equal it bit for bit (or be a syntax error for the rejection set). Every case is non-trivial; distinct by source text".to_string();
    for f in replay_families(t) {
        rep.run_family(f);
    }
    rep.assumptions = vec![
        "Rust's float formatting ({:e}, {:.16e}, {}) produces decimal strings that round-trip to the same double (std guarantee)".into(),
        "unknown escape letters, octal above \\377 in strings, leading zeros and exponent overflow are not fixed by the property and are not generated".into(),
    ];
    rep.finish()
}
