pub mod c03;
pub mod selftest;

use crate::engine::{Family, Tier};

pub fn run(id: &str, tier: Tier, hash_out: Option<String>) -> i32 {
    match id {
        "SELFTEST" => selftest::run(),
        "C03" => c03::run(tier, hash_out),
        _ => {
            eprintln!("unknown property {}", id);
            2
        }
    }
}

pub fn replay_families(id: &str, tier: Tier) -> Option<Vec<Family<'static>>> {
    match id {
        "C03" => Some(c03::replay_families(tier)),
        _ => None,
    }
}
