pub mod c01;
pub mod c02;
pub mod c03;
pub mod c04;
pub mod c05;
pub mod c06;
pub mod c07;
pub mod c08;
pub mod c09;
pub mod c10;
pub mod c11;
pub mod c12;
pub mod c13;
pub mod c14;
pub mod c15;
pub mod c16;
pub mod c17;
pub mod c18;
pub mod c19;
pub mod c20;
pub mod selftest;

use crate::engine::{Family, Tier};

pub fn run(id: &str, tier: Tier, hash_out: Option<String>) -> i32 {
    match id {
        "SELFTEST" => selftest::run(),
        "C01" => c01::run(tier),
        "C02" => c02::run(tier),
        "C03" => c03::run(tier, hash_out),
        "C04" => c04::run(tier),
        "C05" => c05::run(tier),
        "C06" => c06::run(tier),
        "C07" => c07::run(tier),
        "C08" => c08::run(tier),
        "C09" => c09::run(tier),
        "C10" => c10::run(tier),
        "C11" => c11::run(tier),
        "C12" => c12::run(tier),
        "C13" => c13::run(tier),
        "C14" => c14::run(tier),
        "C15" => c15::run(tier),
        "C16" => c16::run(tier),
        "C17" => c17::run(tier),
        "C18" => c18::run(tier),
        "C19" => c19::run(tier),
        "C20" => c20::run(tier),
        _ => {
            eprintln!("unknown property {}", id);
            2
        }
    }
}

pub fn replay_families(id: &str, tier: Tier) -> Option<Vec<Family<'static>>> {
    match id {
        "C01" => Some(c01::replay_families(tier)),
        "C02" => Some(c02::replay_families(tier)),
        "C03" => Some(c03::replay_families(tier)),
        "C04" => Some(c04::replay_families(tier)),
        "C05" => Some(c05::replay_families(tier)),
        "C06" => Some(c06::replay_families(tier)),
        "C07" => Some(c07::replay_families(tier)),
        "C08" => Some(c08::replay_families(tier)),
        "C09" => Some(c09::replay_families(tier)),
        "C10" => Some(c10::replay_families(tier)),
        "C11" => Some(c11::replay_families(tier)),
        "C12" => Some(c12::replay_families(tier)),
        "C13" => Some(c13::replay_families(tier)),
        "C14" => Some(c14::replay_families(tier)),
        "C15" => Some(c15::replay_families(tier)),
        "C16" => Some(c16::replay_families(tier)),
        "C17" => Some(c17::replay_families(tier)),
        "C18" => Some(c18::replay_families(tier)),
        "C19" => Some(c19::replay_families(tier)),
        "C20" => Some(c20::replay_families(tier)),
        _ => None,
    }
}
