//! C08 — has() and coalesce() distinguish absent data from every other failure,
//! identically at top level, inside macro bodies and under nested field paths.
use crate::engine::*;
use crate::real::{self, Outcome};
use crate::val::V;
use rscel::{BindContext, CelError, CelValue};
use serde_json::json;
use std::cell::RefCell;
use std::collections::BTreeMap;

pub const ID: &str = "C08";

thread_local! {
    static LOG: RefCell<Vec<i64>> = const { RefCell::new(Vec::new()) };
}
/// v(i, x): records i, returns x
fn v_impl(_t: CelValue, a: Vec<CelValue>) -> CelValue {
    if let Some(CelValue::Int(i)) = a.first() {
        LOG.with(|l| l.borrow_mut().push(*i));
    }
    a.get(1).cloned().unwrap_or(CelValue::from_err(CelError::argument("v needs 2 arguments")))
}
fn take_log() -> Vec<i64> {
    LOG.with(|l| std::mem::take(&mut *l.borrow_mut()))
}

// ---------------------------------------------------------------------------
// field paths

#[derive(Clone, Copy, Debug, PartialEq, Eq, Hash)]
enum Term {
    Missing,
    Null,
    Int,
    Str,
    List,
    Map,
}
const TERMS: [Term; 6] = [Term::Missing, Term::Null, Term::Int, Term::Str, Term::List, Term::Map];
const NAMES: [&str; 4] = ["a", "b", "c", "d"];

fn term_val(t: Term) -> Option<V> {
    match t {
        Term::Missing => None,
        Term::Null => Some(V::Null),
        Term::Int => Some(V::Int(5)),
        Term::Str => Some(V::s("s")),
        Term::List => Some(V::list(&[V::Int(1)])),
        Term::Map => Some(V::map(&[])),
    }
}

/// value of the node at `level` when the chain stops at level `k` with terminal `t`
fn build(k: usize, t: Term, level: usize) -> Option<V> {
    if level == k {
        return term_val(t);
    }
    let mut m: BTreeMap<String, V> = BTreeMap::new();
    m.insert("other".to_string(), V::Int(1));
    if let Some(c) = build(k, t, level + 1) {
        m.insert(NAMES[level].to_string(), c);
    }
    Some(V::Map(m))
}

#[derive(Clone, Debug)]
enum Access {
    Present(V),
    Absent,
    /// a field/key is looked up on something that is not a map: the property lists the
    /// configuration without fixing the class; has() and coalesce() must agree on it everywhere
    NonMap,
}

fn classify(d: usize, k: usize, t: Term) -> Access {
    // walk the path of depth d (fields NAMES[0..d]) over the structure
    if k >= d {
        // the structure reaches at least the leaf position
        if k == d {
            return match term_val(t) {
                None => Access::Absent,
                Some(v) => Access::Present(v),
            };
        }
        // k > d: the leaf is a map
        return Access::Present(build(k, t, d).unwrap());
    }
    match t {
        Term::Missing => Access::Absent,
        // looking up NAMES[k] on the terminal value
        Term::Map => Access::Absent,
        _ => Access::NonMap,
    }
}

#[derive(Clone, Copy, Debug, PartialEq, Eq, Hash)]
enum PForm {
    Dot,
    Index,
    Alternate,
    VarKey,
}
const PFORMS: [PForm; 4] = [PForm::Dot, PForm::Index, PForm::Alternate, PForm::VarKey];

fn path_src(root: &str, d: usize, f: PForm) -> String {
    let mut s = root.to_string();
    for i in 0..d {
        let dot = match f {
            PForm::Dot => true,
            PForm::Index | PForm::VarKey => false,
            PForm::Alternate => i % 2 == 0,
        };
        if dot {
            s.push_str(&format!(".{}", NAMES[i]));
        } else if f == PForm::VarKey {
            s.push_str(&format!("[key_{}]", NAMES[i]));
        } else {
            s.push_str(&format!("['{}']", NAMES[i]));
        }
    }
    s
}

/// (name, template around `$` = has(..) expression, maps the has result)
/// expressions around an access `$` that hand its failure on
const WRAPPERS: [&str; 25] = [
    "int($)", "uint($)", "double($)", "string($)", "bool($)", "bytes($)", "type($)", "size($)", "($).size()", "abs($)", "max($, 1)", "f\"{$}\"",
    "[$][0]", "{'k': $}.k", "($) + 1", "($) == 1",
    // macros called as methods of the absent value, and an absent left operand of a failing right one
    "($).map(e, e)", "($).filter(e, true)", "($).all(e, true)", "($).exists(e, e)", "($).exists_one(e, e)", "($).reduce(a, e, a, 0)",
    "($) + (1 / zero)", "($) < [1][5]", "[$, 1 / zero][0]",
];

const HAS_CTX: [&str; 9] = [
    "$",
    "[1].map(i, $)[0]",
    "[1].filter(i, $)",
    "$ ? 'y' : 'n'",
    "has($)",
    "!$",
    "$ && true",
    "[1, 2].all(i, $ == $)",
    "[[1].exists(j, $)].map(i, i)[0]",
];

#[derive(Clone, Debug, PartialEq)]
enum HR {
    True,
    False,
    Fail,
}

fn has_ctx_expected(ctx: &str, h: &HR) -> Result<V, ()> {
    let b = match h {
        HR::Fail => return Err(()),
        HR::True => true,
        HR::False => false,
    };
    Ok(match ctx {
        "[1].filter(i, $)" => V::List(if b { vec![V::Int(1)] } else { vec![] }),
        "$ ? 'y' : 'n'" => V::s(if b { "y" } else { "n" }),
        "has($)" => V::Bool(true),
        "!$" => V::Bool(!b),
        "[1, 2].all(i, $ == $)" => V::Bool(true),
        _ => V::Bool(b),
    })
}

const CO_CTX: [&str; 5] = ["$", "[1].map(i, $)[0]", "$ == 'dflt' ? 'D' : 'V'", "[$, 1][0]", "coalesce(null, $)"];

#[derive(Clone, Debug)]
enum CR {
    Val(V),
    Default,
    Fail,
}
fn co_ctx_expected(ctx: &str, c: &CR) -> Result<V, ()> {
    let v = match c {
        CR::Fail => return Err(()),
        CR::Val(v) => v.clone(),
        CR::Default => V::s("dflt"),
    };
    Ok(match ctx {
        "$ == 'dflt' ? 'D' : 'V'" => V::s(if matches!(c, CR::Default) { "D" } else { "V" }),
        _ => v,
    })
}

fn check(acc: &mut Acc, site: &str, src: &str, bdesc: &str, want: &Result<V, ()>, b: &BindContext) -> Outcome {
    take_log();
    let got = real::eval_with(src, b);
    acc.eval();
    acc.class(&got.class());
    let kind = match (want, &got) {
        (_, Outcome::Panic { .. }) => Some("panic"),
        (_, o) if o.is_compile_fail() => Some("compile-error"),
        (Err(()), Outcome::Fail(..)) => None,
        (Err(()), _) => Some("value-instead-of-failure"),
        (Ok(_), Outcome::Fail(..)) => Some("failure-instead-of-value"),
        (Ok(v), o) => match o.value() {
            Some(g) if g.same(v) => None,
            _ => Some("wrong-value"),
        },
    };
    if let Some(kind) = kind {
        acc.violation(
            &format!("{} {}", site, kind),
            json!({"src": src, "bindings": bdesc}),
            format!("{:?}", want.as_ref().map(|v| v.show())),
            got.show(),
        );
    }
    if acc.wants_sample() {
        acc.sample(json!({"src": src, "bindings": bdesc, "expected": format!("{:?}", want.as_ref().map(|v| v.show())), "observed": got.show()}));
    }
    got
}

fn run_path(idx: u64, acc: &mut Acc) {
    // idx -> (d in 0..=4, k in 0..=d+1, terminal, path form)
    let dgt = unrank(idx, &[5, 6, TERMS.len() as u64, PFORMS.len() as u64]);
    let d = dgt[0] as usize;
    let k = dgt[1] as usize;
    let t = TERMS[dgt[2] as usize];
    let pf = PFORMS[dgt[3] as usize];
    if k > d + 1 || (k == d + 1 && (t != Term::Int || d == 4)) {
        return; // k = d+1 stands for "the leaf is a non-empty map" (one representative)
    }
    if d == 0 && pf != PForm::Dot {
        return;
    }
    let root = build(k, t, 0);
    let cls = classify(d, k, t);
    let mut b = BindContext::new();
    b.bind_func("v", &v_impl);
    for n in NAMES {
        b.bind_param(&format!("key_{}", n), CelValue::String(n.to_string()));
    }
    b.bind_param("zero", CelValue::Int(0));
    if let Some(r) = &root {
        b.bind_param("r", r.to_cel());
        b.bind_param("rr", r.to_cel());
    }
    let bdesc = format!("r = {}", root.as_ref().map(|r| r.show()).unwrap_or_else(|| "<unbound>".into()));
    let e = path_src("r", d, pf);
    let clsname = match &cls {
        Access::Present(V::Null) => "present-null",
        Access::Present(_) => "present",
        Access::Absent => "absent",
        Access::NonMap => "non-map-intermediate",
    };
    let site = format!("path depth {} {:?} {}", d, pf, clsname);
    acc.nontrivial(&idx);

    // the class of the access as has() sees it at top level
    let h_src = format!("has({})", e);
    let h: HR = match &cls {
        Access::Present(_) => HR::True,
        Access::Absent => HR::False,
        Access::NonMap => {
            // not fixed: take the implementation's top-level answer (false or failure, never true)
            take_log();
            let got = real::eval_with(&h_src, &b);
            match (&got, got.value()) {
                (_, Some(V::Bool(false))) => HR::False,
                (Outcome::Fail(..), _) => HR::Fail,
                _ => {
                    acc.violation(
                        &format!("{} has-is-true-or-not-bool", site),
                        json!({"src": h_src, "bindings": bdesc}),
                        "false or a failure".into(),
                        got.show(),
                    );
                    return;
                }
            }
        }
    };
    for ctx in HAS_CTX {
        let src = ctx.replace('$', &h_src);
        let want = has_ctx_expected(ctx, &h);
        check(acc, &format!("{} has in `{}`", site, ctx), &src, &bdesc, &want, &b);
    }
    // an absent operand makes every expression built on it absent: conversions, calls, operators,
    // an f-string hole and collection literals around the path
    if matches!(cls, Access::Absent) {
        for w in WRAPPERS {
            let inner = w.replace('$', &e);
            check(acc, &format!("{} has around `{}`", site, w), &format!("has({})", inner), &bdesc, &Ok(V::Bool(false)), &b);
            check(acc, &format!("{} has around `{}` in a macro body", site, w), &format!("[1].map(i, has({}))[0]", inner), &bdesc, &Ok(V::Bool(false)), &b);
            check(acc, &format!("{} coalesce around `{}`", site, w), &format!("coalesce({}, 'dflt')", inner), &bdesc, &Ok(V::s("dflt")), &b);
        }
        // operands are evaluated left to right: a failure of another kind on the left comes first
        for w in ["(1 / zero) + ($)", "[1][5] < ($)", "(1 % zero) == ($)", "size(1 / zero) + size($)"] {
            let inner = w.replace('$', &e);
            check(acc, &format!("{} has around `{}`", site, w), &format!("has({})", inner), &bdesc, &Err(()), &b);
            check(acc, &format!("{} coalesce around `{}`", site, w), &format!("coalesce({}, 'dflt')", inner), &bdesc, &Err(()), &b);
        }
    }
    // the root reached through a loop variable (only when there is a root value)
    if root.is_some() {
        let inner = format!("has({})", path_src("q", d, pf));
        let src = format!("[rr].map(q, {})[0]", inner);
        let want = has_ctx_expected("$", &h);
        check(acc, &format!("{} has via loop variable", site), &src, &bdesc, &want, &b);
    }
    // coalesce must classify the same access the same way
    let c: CR = match (&cls, &h) {
        (Access::Present(V::Null), _) => CR::Default,
        (Access::Present(v), _) => CR::Val(v.clone()),
        (Access::Absent, _) => CR::Default,
        (Access::NonMap, HR::False) => CR::Default,
        (Access::NonMap, _) => CR::Fail,
    };
    let c_src = format!("coalesce({}, 'dflt')", e);
    for ctx in CO_CTX {
        let src = ctx.replace('$', &c_src);
        let want = co_ctx_expected(ctx, &c);
        check(acc, &format!("{} coalesce in `{}`", site, ctx), &src, &bdesc, &want, &b);
    }
    if root.is_some() {
        let src = format!("[rr].map(q, coalesce({}, 'dflt'))[0]", path_src("q", d, pf));
        let want = co_ctx_expected("$", &c);
        check(acc, &format!("{} coalesce via loop variable", site), &src, &bdesc, &want, &b);
    }
}

// ---------------------------------------------------------------------------
// coalesce argument lists

#[derive(Clone, Copy, Debug, PartialEq, Eq, Hash)]
enum Item {
    PresentVar,
    PresentLit,
    NullLit,
    NullVar,
    Unbound,
    MissingField,
    MissingIndex,
    NullField,
    DivZeroFold,
    DivZeroRun,
    TypeError,
    BadIndex,
    CallPresent,
    CallNull,
}
const ITEMS: [Item; 14] = [
    Item::PresentVar,
    Item::PresentLit,
    Item::NullLit,
    Item::NullVar,
    Item::Unbound,
    Item::MissingField,
    Item::MissingIndex,
    Item::NullField,
    Item::DivZeroFold,
    Item::DivZeroRun,
    Item::TypeError,
    Item::BadIndex,
    Item::CallPresent,
    Item::CallNull,
];
#[derive(Clone, Debug)]
enum ItemR {
    Val(V),
    Null,
    Absent,
    Other,
}
impl Item {
    fn src(&self, pos: usize) -> String {
        match self {
            Item::PresentVar => "pv".into(),
            Item::PresentLit => format!("{}", 70 + pos),
            Item::NullLit => "null".into(),
            Item::NullVar => "nv".into(),
            Item::Unbound => "u".into(),
            Item::MissingField => "m.zz".into(),
            Item::MissingIndex => "m['zz']".into(),
            Item::NullField => "m.n".into(),
            Item::DivZeroFold => "1/0".into(),
            Item::DivZeroRun => "z/0".into(),
            Item::TypeError => "'a' < z".into(),
            Item::BadIndex => "l[9]".into(),
            Item::CallPresent => format!("v({}, {})", pos, 50 + pos),
            Item::CallNull => format!("v({}, null)", pos),
        }
    }
    fn eval(&self, pos: usize, log: &mut Vec<i64>) -> ItemR {
        match self {
            Item::PresentVar => ItemR::Val(V::Int(5)),
            Item::PresentLit => ItemR::Val(V::Int(70 + pos as i64)),
            Item::NullLit | Item::NullVar | Item::NullField => ItemR::Null,
            Item::Unbound | Item::MissingField | Item::MissingIndex => ItemR::Absent,
            Item::DivZeroFold | Item::DivZeroRun | Item::TypeError | Item::BadIndex => ItemR::Other,
            Item::CallPresent => {
                log.push(pos as i64);
                ItemR::Val(V::Int(50 + pos as i64))
            }
            Item::CallNull => {
                log.push(pos as i64);
                ItemR::Null
            }
        }
    }
}

pub struct Lists {
    items: Vec<Item>,
    offsets: Vec<u64>,
}
impl Lists {
    fn new(t: Tier) -> Lists {
        let maxlen = t.pick(4u32, 6u32);
        let items = ITEMS.to_vec();
        let mut offsets = vec![0u64];
        for n in 0..=maxlen {
            offsets.push(offsets.last().unwrap() + (items.len() as u64).pow(n));
        }
        Lists { items, offsets }
    }
    fn size(&self) -> u64 {
        *self.offsets.last().unwrap()
    }
    fn run(&self, idx: u64, acc: &mut Acc) {
        let n = match self.offsets.binary_search(&idx) {
            Ok(i) => i,
            Err(i) => i - 1,
        };
        let d = unrank(idx - self.offsets[n], &vec![self.items.len() as u64; n]);
        let items: Vec<Item> = d.iter().map(|x| self.items[*x as usize]).collect();
        let args: Vec<String> = items.iter().enumerate().map(|(i, it)| it.src(i)).collect();
        let co = format!("coalesce({})", args.join(", "));
        // reference: first argument neither null nor absent; nothing after it evaluated
        let mut exp_log = Vec::new();
        let mut exp: Result<V, ()> = Ok(V::Null);
        for (i, it) in items.iter().enumerate() {
            match it.eval(i, &mut exp_log) {
                ItemR::Val(v) => {
                    exp = Ok(v);
                    break;
                }
                ItemR::Null | ItemR::Absent => continue,
                ItemR::Other => {
                    exp = Err(());
                    break;
                }
            }
        }
        let mut b = BindContext::new();
        b.bind_func("v", &v_impl);
        b.bind_param("pv", CelValue::Int(5));
        b.bind_param("nv", CelValue::Null);
        b.bind_param("z", CelValue::Int(1));
        b.bind_param("l", V::list(&[V::Int(1)]).to_cel());
        b.bind_param("m", V::map(&[("k", V::Int(1)), ("n", V::Null)]).to_cel());
        let bdesc = "pv=5 nv=null z=1 l=[1] m={'k':1,'n':null}; v(i,x) records i and returns x; u unbound";
        acc.nontrivial(&idx);
        let first_class = items
            .iter()
            .map(|it| match it.eval(0, &mut Vec::new()) {
                ItemR::Val(_) => 'P',
                ItemR::Null => 'N',
                ItemR::Absent => 'A',
                ItemR::Other => 'F',
            })
            .collect::<String>();
        // signature: the run of skipped classes up to the deciding argument
        let upto = first_class.find(|c| c == 'P' || c == 'F').map(|i| i + 1).unwrap_or(first_class.len());
        let sig: String = {
            let mut s: Vec<char> = first_class[..upto].chars().collect();
            s.dedup();
            s.into_iter().collect()
        };
        for (ctx, wrap) in [("top", "$"), ("map-body", "[1].map(i, $)[0]"), ("ternary", "true ? $ : 0"), ("has", "has($)")] {
            let src = wrap.replace('$', &co);
            let want = if ctx == "has" { exp.clone().map(|_| V::Bool(true)) } else { exp.clone() };
            let got = check(acc, &format!("coalesce-list [{}] in {}", sig, ctx), &src, bdesc, &want, &b);
            let got_log = take_log();
            if !got.is_panic() && got_log != exp_log {
                acc.violation(
                    &format!("coalesce-list [{}] in {} evaluated-arguments-differ", sig, ctx),
                    json!({"src": src, "bindings": bdesc}),
                    format!("calls {:?}", exp_log),
                    format!("calls {:?}", got_log),
                );
            }
        }
        // has() over each single item (once, for lists of length 1)
        if n == 1 {
            let it = items[0];
            let mut l = Vec::new();
            let want = match it.eval(0, &mut l) {
                ItemR::Val(_) | ItemR::Null => Ok(V::Bool(true)),
                ItemR::Absent => Ok(V::Bool(false)),
                ItemR::Other => Err(()),
            };
            for wrap in ["has($)", "[1].map(i, has($))[0]", "has($) || false"] {
                let src = wrap.replace('$', &it.src(0));
                check(acc, &format!("has-item {:?}", it), &src, bdesc, &want, &b);
                let got_log = take_log();
                if got_log != l {
                    acc.violation(&format!("has-item {:?} evaluated-arguments-differ", it), json!({"src": src}), format!("calls {:?}", l), format!("calls {:?}", got_log));
                }
            }
        }
    }
}

// ---------------------------------------------------------------------------
// bare identifiers that are also names of built-in functions, macros or types

const NAMES_LIKE_BUILTINS: [&str; 10] = ["size", "max", "min", "filter", "map", "has", "coalesce", "abs", "contains", "zz"];

fn run_names(idx: u64, acc: &mut Acc) {
    let d = unrank(idx, &[NAMES_LIKE_BUILTINS.len() as u64, 3]);
    let name = NAMES_LIKE_BUILTINS[d[0] as usize];
    // 0: unbound as a variable, 1: bound to 7, 2: bound to null
    let mut b = BindContext::new();
    b.bind_func("v", &v_impl);
    let (h, c): (HR, CR) = match d[1] {
        0 => (HR::False, CR::Default),
        1 => {
            b.bind_param(name, CelValue::Int(7));
            (HR::True, CR::Val(V::Int(7)))
        }
        _ => {
            b.bind_param(name, CelValue::Null);
            (HR::True, CR::Default)
        }
    };
    let bdesc = format!("{} {}", name, ["not bound as a variable", "= 7", "= null"][d[1] as usize]);
    let site = format!("identifier named like a built-in ({})", ["unbound", "bound", "bound to null"][d[1] as usize]);
    acc.nontrivial(&("names", idx));
    let h_src = format!("has({})", name);
    for ctx in HAS_CTX {
        let src = ctx.replace('$', &h_src);
        check(acc, &format!("{} has in `{}`", site, ctx), &src, &bdesc, &has_ctx_expected(ctx, &h), &b);
    }
    let c_src = format!("coalesce({}, 'dflt')", name);
    for ctx in CO_CTX {
        let src = ctx.replace('$', &c_src);
        check(acc, &format!("{} coalesce in `{}`", site, ctx), &src, &bdesc, &co_ctx_expected(ctx, &c), &b);
    }
    // as an intermediate component of a path through a map that lacks it
    if d[1] == 0 && name != "zz" {
        let mut b2 = BindContext::new();
        b2.bind_param("mm", V::map(&[("other", V::Int(1))]).to_cel());
        b2.bind_param("ll", V::list(&[V::map(&[("other", V::Int(1))])]).to_cel());
        let bd = "mm = {'other': 1}, ll = [mm]";
        check(acc, &format!("{} has through an absent component", site), &format!("has(mm.{}.b)", name), bd, &Ok(V::Bool(false)), &b2);
        check(acc, &format!("{} coalesce through an absent component", site), &format!("coalesce(mm.{}.k, 'dflt')", name), bd, &Ok(V::s("dflt")), &b2);
        check(acc, &format!("{} has through an absent component in a macro", site), &format!("ll.map(i, has(i.{}.b))", name), bd, &Ok(V::list(&[V::Bool(false)])), &b2);
    }
    // and as the root of a path
    let src = format!("has({}.a)", name);
    let want = match d[1] {
        0 => Ok(V::Bool(false)),
        _ => return,
    };
    check(acc, &format!("{} has on a path", site), &src, &bdesc, &want, &b);
}

// ---------------------------------------------------------------------------
// paths whose root fails for another reason than absent data: every other failure propagates

/// roots that fail, but not because something is absent (z = 0, s = 'x', l = [1, 2])
const FAILED_ROOTS: [&str; 6] = ["(1 / z)", "(1 % z)", "l[5]", "int(s)", "(l + 1)", "(-s)"];
const ROOT_SUFFIXES: [&str; 8] = [".a", ".a.b", "['k']", ".a['k']", "['k'].a", ".a.b.c", "[0].a", ".size"];
const ROOT_CONTEXTS: [&str; 6] = ["has($)", "coalesce($, 'dflt')", "[1].map(i, has($))[0]", "has($) ? 1 : 2", "coalesce(null, $, 1)", "[1].filter(i, has($))"];

fn run_failed_root(idx: u64, acc: &mut Acc) {
    let d = unrank(idx, &[FAILED_ROOTS.len() as u64, ROOT_SUFFIXES.len() as u64, ROOT_CONTEXTS.len() as u64]);
    let e = format!("{}{}", FAILED_ROOTS[d[0] as usize], ROOT_SUFFIXES[d[1] as usize]);
    let ctx = ROOT_CONTEXTS[d[2] as usize];
    let src = ctx.replace('$', &e);
    let mut b = BindContext::new();
    b.bind_param("z", CelValue::Int(0));
    b.bind_param("s", CelValue::String("x".to_string()));
    b.bind_param("l", CelValue::List(vec![CelValue::Int(1), CelValue::Int(2)]));
    take_log();
    let got = real::eval_with(&src, &b);
    acc.eval();
    acc.class(&got.class());
    acc.nontrivial(&idx);
    let ok = match &got {
        Outcome::Fail(k, _) => !k.is_absent(),
        _ => false,
    };
    if !ok {
        acc.violation(
            &format!("path on a root that failed `{}` in `{}` failure-not-propagated", ROOT_SUFFIXES[d[1] as usize], ctx),
            json!({"src": src, "bindings": "z = 0, s = 'x', l = [1, 2]"}),
            "the failure of the root (not absent data), propagated".into(),
            got.show(),
        );
    }
    if acc.wants_sample() {
        acc.sample(json!({"src": src, "observed": got.show()}));
    }
}

fn failed_root_size() -> u64 {
    (FAILED_ROOTS.len() * ROOT_SUFFIXES.len() * ROOT_CONTEXTS.len()) as u64
}

pub fn replay_families(t: Tier) -> Vec<Family<'static>> {
    let l: &'static Lists = Box::leak(Box::new(Lists::new(t)));
    vec![
        Family::new("paths", 5 * 6 * TERMS.len() as u64 * PFORMS.len() as u64, run_path),
        Family::new("coalesce-lists", l.size(), move |i, a| l.run(i, a)),
        Family::new("names", NAMES_LIKE_BUILTINS.len() as u64 * 3, run_names),
        Family::new("failed-roots", failed_root_size(), run_failed_root),
    ]
}

pub fn run(t: Tier) -> i32 {
    let mut rep = Report::new(ID, t, "exploration");
    let l = Lists::new(t);
    rep.rule = format!(
        "paths: field paths r, r.a, .. r.a.b.c.d in 4 spellings (dots, ['k'] indices, alternating, variable keys) x every binding configuration (the chain stops at any level with the root unbound / a field missing, null, an int, a string, a list or an empty map; or reaches the leaf, which is null, a value, or a map) x has() in 9 contexts (top level, map and filter bodies, ?:, nested has, !, &&, all, nested exists) and through a loop variable, and coalesce(e, 'dflt') in 5 contexts and through a loop variable; around an absent access has() is false and coalesce falls through also under 16 wrappers that hand the failure on (every conversion, size as function and method, abs, max, an f-string hole, a list and a map literal, + and ==), at top level and in a macro body; expected from the two-class lattice absent/other; for a field looked up on a non-map (class not fixed by the statement) the implementation's own top-level has() answer (false or failure, never true) must be reproduced in every context and by coalesce. coalesce-lists: every argument list of length 0..{} over 14 items (present, null, unbound, missing field/index, null field, foldable and run-time division by zero, type error, bad index, call-recording present/null) in 4 contexts: result and the exact set of evaluated call-recording arguments. names: bare identifiers spelled like built-in functions/macros (size, max, filter, map, has, ...) unbound / bound / bound to null, in all has and coalesce contexts. failed-roots: 6 roots that fail for another reason than absent data (division and remainder by zero, index out of range, a conversion, a type error, a negated string) x 8 path suffixes (.a, .a.b, ['k'], [0].a, .size, ...) x 6 has/coalesce contexts: the failure of the root propagates, it is never turned into absent data. Non-trivial = every enumerated configuration; distinct by index",
        t.pick(4, 6)
    );
    rep.run_family(Family::new("paths", 5 * 6 * TERMS.len() as u64 * PFORMS.len() as u64, run_path));
    rep.run_family(Family::new("coalesce-lists", l.size(), |i, a| l.run(i, a)));
    rep.run_family(Family::new("names", NAMES_LIKE_BUILTINS.len() as u64 * 3, run_names));
    rep.run_family(Family::new("failed-roots", failed_root_size(), run_failed_root));
    rep.assumptions = vec![
        "a field or key looked up on a value that is not a map may count as absent or as another failure; only consistency is demanded there".into(),
        "failure kinds are not compared beyond the absent/other split, which is observed through has() and coalesce() themselves".into(),
    ];
    rep.finish()
}
