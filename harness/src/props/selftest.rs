//! Model conformance: the reference model is replayed against expectations the
//! repository itself states in rscel/src/tests/general_tests.rs (read at run
//! time). A disagreement is a machinery error (exit 2), never a verdict.
use crate::real;
use crate::refmodel::{self, Arith, Exp};
use crate::val::V;

fn parse_num(s: &str) -> Option<V> {
    let s = s.trim();
    if let Some(u) = s.strip_suffix("u64").or_else(|| s.strip_suffix('u')) {
        return u.trim().parse::<u64>().ok().map(V::UInt);
    }
    if s.contains('.') {
        return s.parse::<f64>().ok().map(V::Dbl);
    }
    s.parse::<i64>().ok().map(V::Int)
}

pub fn run() -> i32 {
    let path = "/repo/rscel/src/tests/general_tests.rs";
    let text = match std::fs::read_to_string(path) {
        Ok(t) => t,
        Err(e) => {
            eprintln!("MACHINERY ERROR: cannot read {}: {}", path, e);
            return 2;
        }
    };
    let mut checked = 0;
    let mut bad = 0;
    for line in text.lines() {
        let line = line.trim();
        let rest = match line.strip_prefix("#[test_case(\"") {
            Some(r) => r,
            None => continue,
        };
        let (expr, rest) = match rest.split_once("\", ") {
            Some(x) => x,
            None => continue,
        };
        let expected = match rest.split_once(';') {
            Some((e, _)) => e.trim(),
            None => continue,
        };
        // binary arithmetic on two numeric literals: "a OP b"
        let toks: Vec<&str> = expr.split_whitespace().collect();
        let (a, op, b) = if toks.len() == 3 {
            (toks[0], toks[1], toks[2])
        } else if toks.len() == 1 {
            // forms like 3+3
            let e = toks[0];
            match e.char_indices().skip(1).find(|(_, c)| "+-*/%".contains(*c)) {
                Some((i, _)) => (&e[..i], &e[i..i + 1], &e[i + 1..]),
                None => continue,
            }
        } else {
            continue;
        };
        let op = match op {
            "+" => Arith::Add,
            "-" => Arith::Sub,
            "*" => Arith::Mul,
            "/" => Arith::Div,
            "%" => Arith::Rem,
            _ => continue,
        };
        let (a, b, e) = match (parse_num(a), parse_num(b), parse_num(expected)) {
            (Some(a), Some(b), Some(e)) => (a, b, e),
            _ => continue,
        };
        checked += 1;
        let model = refmodel::arith(op, &a, &b);
        let ok_model = matches!(&model, Exp::Val(v) if v.same(&e));
        let got = real::eval(expr, &[]);
        let ok_impl = got.value().map(|v| v.same(&e)).unwrap_or(false);
        if !ok_model || !ok_impl {
            bad += 1;
            eprintln!(
                "MACHINERY ERROR: model conformance: {} expected {} model {} implementation {}",
                expr,
                e.show(),
                model.show(),
                got.show()
            );
        }
    }
    eprintln!("[SELFTEST] arithmetic expectations from general_tests.rs replayed against the model: {} checked, {} disagree", checked, bad);
    if bad > 0 || checked < 5 {
        if checked < 5 {
            eprintln!("MACHINERY ERROR: selftest found too few expectations ({})", checked);
        }
        return 2;
    }
    // the hang verdict of the child-process runner: a spinning child and a sleeping child are
    // both hangs, a child that finishes is not
    use crate::isolate::{run_child, ChildResult};
    let budget = std::time::Duration::from_millis(300);
    let sh = |c: &str| run_child("/bin/sh", &["-c".to_string(), c.to_string()], budget);
    let spin = sh("while :; do :; done");
    let sleep = sh("sleep 30");
    let done = sh("echo ok");
    let ok = spin == ChildResult::Hang && sleep == ChildResult::Hang && done == ChildResult::Done("ok".into());
    eprintln!("[SELFTEST] child runner: spinning child {:?}, sleeping child {:?}, finishing child {:?}", spin, sleep, done);
    if !ok {
        eprintln!("MACHINERY ERROR: the child-process runner misjudges a hang");
        return 2;
    }
    0
}
