//! C19 — serialized programs (JSON, bincode) behave exactly like the original.
use crate::engine::*;
use crate::real::{self, Outcome};
use crate::val::{V, NS};
use rscel::{BindContext, CelValue, Program};
use serde_json::json;
use std::collections::BTreeSet;

pub const ID: &str = "C19";

/// programs whose bytecode holds, as folded constants, every serialisable value variant with
/// boundary payloads and every error constant the folder can produce
fn constant_rich() -> Vec<String> {
    let mut v: Vec<String> = Vec::new();
    let consts: Vec<V> = vec![
        V::Int(0),
        V::Int(-1),
        V::Int(i64::MAX),
        V::Int(i64::MIN),
        V::UInt(0),
        V::UInt(u64::MAX),
        V::UInt(1 << 63),
        V::Dbl(0.0),
        V::Dbl(-0.0),
        V::Dbl(1.5),
        V::Dbl(f64::INFINITY),
        V::Dbl(f64::NEG_INFINITY),
        V::Dbl(f64::NAN),
        V::Dbl(f64::from_bits(1)),
        V::Dbl(f64::MAX),
        V::Dbl(0.1),
        V::s(""),
        V::s("a'\"\\\n\t\0é\u{1F600}"),
        V::Bytes(vec![]),
        V::Bytes((0u8..=255).collect()),
        V::Bool(true),
        V::Bool(false),
        V::Null,
        V::Type("int".into()),
        V::Type("string".into()),
        V::list(&[]),
        V::list(&[V::Int(1), V::s("a"), V::Null, V::list(&[V::Dbl(1.5)])]),
        V::map(&[]),
        V::map(&[("a", V::Int(1)), ("b", V::map(&[("c", V::list(&[V::Bool(true)]))]))]),
        V::Ts(0),
        V::Ts(-NS),
        V::Ts(1_700_000_000 * NS + 123_000_000),
        V::Ts(253_402_300_799 * NS),
        V::Ts(-62_135_596_800 * NS),
        // before the epoch with a millisecond part (floor and truncation differ)
        V::Ts(-750_000_000),
        V::Ts(-1_250_000_000),
        V::Ts(-62_135_596_800 * NS + 500_000_000),
        V::Ts(-86_400 * NS - 1_000_000),
        V::Dur(-750_000_000),
        V::Dur(-1_000_000),
        V::Dur(0),
        V::Dur(90 * NS),
        V::Dur(-1_500_000_000),
        V::Dur(86_400 * 365 * 1000 * NS),
        V::Dur(1_000_000),
    ];
    for c in &consts {
        if let Some(s) = c.src() {
            v.push(s.clone());
            v.push(format!("[{}, x]", s));
            v.push(format!("{{'k': {}}}", s));
            v.push(format!("x == {}", s));
            v.push(format!("[{}].map(i, i)", s));
            v.push(format!("x ? {} : 0", s));
            v.push(format!("coalesce(x, {})", s));
        }
    }
    // error constants
    for e in [
        "1/0", "1 % 0", "int('a')", "abs()", "1 < 'a'", "9223372036854775807 + 1", "[1][5]", "{'a': 1}['b']", "-(-9223372036854775807 - 1)",
        "'a'.splitAt(9)", "timestamp('x')", "duration('x')", "uint(-1)", "bytes(1)", "[1/0]", "{'k': 1/0}", "1/0 == 1/0", "!(1/0)",
        "(1/0) || true", "(1/0) && false", "(1/0) ? 1 : 2", "true ? 1/0 : 2", "[1/0][0]", "size(1)", "pow(2, -1)", "log(0)",
        "uomConvert(1, 'm', 'kg')", "'a' in 1", "{1: 2}", "type(1/0)", "string(1/0)",
    ] {
        v.push(e.to_string());
        v.push(format!("x || {}", e));
        v.push(format!("[x, {}]", e));
        v.push(format!("has({})", e));
        v.push(format!("[1].map(i, {})", e));
    }
    // folded map constants under macros whose body fails in different ways on different keys: the
    // class of the error must not depend on the instance of the map the deserializer builds
    let m12 = "{'1': 0, '2': 0, '3': 0, '4': 0, '5': 0, '6': 0, 'p': 0, 'q': 0, 'r': 0, 's': 0, 't': 0, 'u': 0}";
    let m2 = "{'1': 0, 'p': 0}";
    for m in [m12, m2] {
        v.push(format!("{}.filter(k, 10 / (int(k) * x) >= 0)", m));
        v.push(format!("{}.map(k, 10 / (int(k) * x))", m));
        v.push(format!("{}.map(k, 10 / (int(k) * x) >= 0, k)", m));
        v.push(format!("{}.map(k, true, 10 / (int(k) * x))", m));
        v.push(format!("[1].map(i, {}.filter(k, 10 / (int(k) * x) >= 0))", m));
        v.push(format!("{} == {{'1': 10 / x, 'p': int(y)}}", m2));
    }
    // nesting: every level of a call, macro, list or parenthesis is a level of the serialized tree.
    // All alternations of two constructs at every depth the parser accepts, alone and inside an
    // f-string hole
    let nest: [(&str, &str); 9] = [
        ("size(", ")"),
        ("[", "]"),
        ("[1].map(i, ", ")"),
        ("{\"k\": ", "}"),
        ("x.f(", ")"),
        ("(", ")"),
        ("coalesce(", ")"),
        ("x ? 1 : (", ")"),
        ("match x { case int: ", ", case _: 0 }"),
    ];
    for (ai, a) in nest.iter().enumerate() {
        for (bi, b) in nest.iter().enumerate() {
            for d in 1usize..=32 {
                if ai != bi && d == 1 {
                    continue;
                }
                for leaf in ["x", "1"] {
                    let mut open = String::new();
                    let mut close = String::new();
                    for l in 0..d {
                        let c = if l % 2 == 0 { a } else { b };
                        open.push_str(c.0);
                        close.insert_str(0, c.1);
                    }
                    let e = format!("{}{}{}", open, leaf, close);
                    // the same nest inside an f-string hole (the hole is compiled on its own)
                    if leaf == "x" && (ai == bi || d >= 24) {
                        v.push(format!("f'{{{}}}'", e));
                        v.push(format!("size(f'{{{}}}')", e));
                    }
                    v.push(e);
                }
            }
        }
    }
    // values nested by folded calls: the source is flat, the constant is as deep as the chain is long
    for k in [1usize, 8, 20, 30, 31, 32, 40, 59, 60, 61, 62, 63, 64, 70, 100, 200] {
        v.push(format!("[1]{}", ".map(x, [x])".repeat(k)));
        v.push(format!("[1]{}", ".map(x, {'k': x})".repeat(k)));
        v.push(format!("[y]{}", ".map(x, [x])".repeat(k)));
        v.push(format!("[[1]{}, y]", ".map(x, [x])".repeat(k)));
    }
    // doubles whose shortest decimal spelling a fast parser reads back one ulp off, leap seconds
    for c in ["31.245270191439438", "5e-324", "1.7976931348623157e308", "0.1 + 0.2", "2.2250738585072014e-308", "9007199254740993.0", "1e23", "8.41e21", "4.35", "0.3", "123456789.12345678", "1.0 / 3.0"] {
        v.push(c.to_string());
        v.push(format!("x == {}", c));
        v.push(format!("string({})", c));
    }
    for c in ["timestamp('2016-12-31T23:59:60Z')", "timestamp('2016-12-31T23:59:60.500Z')", "timestamp('2015-06-30T23:59:60Z')"] {
        v.push(c.to_string());
        v.push(format!("[{}][0] == timestamp('2017-01-01T00:00:00Z')", c));
        v.push(format!("string({})", c));
        v.push(format!("{} < timestamp('2017-01-01T00:00:00.250Z')", c));
    }
    // folded type constants of every type, and identifiers of every lexical shape among the parameters
    for c in ["type([1])", "type({})", "type({'a': 1})", "type(null)", "type(1u)", "type(1.5)", "type(b'a')", "type(true)", "type(type(1))", "type(timestamp(0))", "type(duration('1s'))", "type('a')", "[type([]), type(null)]", "x == type([1])"] {
        v.push(c.to_string());
        v.push(format!("[{}, x]", c));
    }
    for id in ["_tmp", "__x", "_", "_1", "x_", "X", "x1", "camelCase", "a_b_c"] {
        v.push(format!("{} + 1", id));
        v.push(format!("[1].map(i, {})", id));
        v.push(format!("f'{{{}}}'", id));
        v.push(format!("has({}.a)", id));
    }
    // constants that only a folded call can produce (the literal -0.0 is PUSH 0.0; NEG)
    for c in ["double('-0.0')", "double('-0')", "double('inf')", "double('-inf')", "double('nan')", "double('1e400')", "double('5e-324')", "double(-0)", "pow(-0.0 - 0.0, 3)", "sqrt(double('-0.0'))"] {
        v.push(c.to_string());
        v.push(format!("1.0 / {}", c));
        v.push(format!("x / {}", c));
        v.push(format!("[{}, x]", c));
        v.push(format!("string({})", c));
        v.push(format!("{{'k': {}}}", c));
    }
    // branches longer than a short jump distance can hold (127, 32767 and 65535 instructions):
    // executed with the binding that takes the long jump and with the one that does not
    for n in [200usize, 40_000, 70_000] {
        let elems = vec!["y"; n].join(", ");
        v.push(format!("x ? [{}][0] : 0", elems));
        v.push(format!("x ? 0 : [{}][0]", elems));
        v.push(format!("x || [{}][0]", elems));
        v.push(format!("x && [{}][0]", elems));
        v.push(format!("match x {{ case int: [{}][0], case _: 5 }}", elems));
    }
    v.sort();
    v.dedup();
    v
}

fn sources(t: Tier) -> Vec<String> {
    let mut v = crate::props::c10::programs(t);
    v.extend(constant_rich());
    v
}

pub struct Space {
    srcs: Vec<String>,
}

const ASSIGN: [Option<&str>; 5] = [Some("1"), Some("'a'"), Some("true"), Some("0"), None];

impl Space {
    pub fn new(t: Tier) -> Space {
        Space { srcs: sources(t) }
    }

    fn run(&self, idx: u64, acc: &mut Acc) {
        let src = &self.srcs[idx as usize];
        let prog = match real::compile(src) {
            Ok(p) => p,
            Err(o) => {
                acc.eval();
                acc.class(&o.class());
                if o.is_panic() {
                    acc.violation("compile panic", json!({"src": src}), "a program or a syntax error".into(), o.show());
                }
                return;
            }
        };
        acc.nontrivial(src);
        let orig_params: BTreeSet<String> = prog.params().into_iter().map(|s| s.to_string()).collect();
        let bc_text = format!("{:?}", prog.bytecode());
        for fmt in ["json", "bincode"] {
            let case = || json!({"src": src, "format": fmt, "bytecode": bc_text});
            // serialise
            let bytes: Vec<u8> = match real::guarded("serialize", || match fmt {
                "json" => serde_json::to_vec(&prog).map_err(|e| format!("{}", e)),
                _ => bincode::serialize(&prog).map_err(|e| format!("{}", e)),
            }) {
                Ok(Ok(b)) => b,
                Ok(Err(e)) => {
                    acc.class("serialize-error");
                    acc.violation(&format!("{} serialization-fails", fmt), case(), "serializes".into(), e);
                    continue;
                }
                Err(o) => {
                    acc.violation(&format!("{} serialization-panics", fmt), case(), "serializes".into(), o.show());
                    continue;
                }
            };
            acc.eval();
            // deserialise
            let back: Program = match real::guarded("deserialize", || match fmt {
                "json" => serde_json::from_slice::<Program>(&bytes).map_err(|e| format!("{}", e)),
                _ => bincode::deserialize::<Program>(&bytes).map_err(|e| format!("{}", e)),
            }) {
                Ok(Ok(p)) => p,
                Ok(Err(e)) => {
                    acc.class("deserialize-error");
                    let what = classify_constants(&bc_text);
                    if e.contains("recursion limit") {
                        acc.violation(
                            &format!("{} deserialization-fails reader's-recursion-limit [code blocks nested {} deep, values nested {} deep]", fmt, block_depth(&bc_text), value_depth(&bc_text)),
                            json!({"src": src, "format": fmt}),
                            "the program reads back".into(),
                            e,
                        );
                        continue;
                    }
                    acc.violation(&format!("{} deserialization-fails [{}]", fmt, what), case(), "the program reads back".into(), e);
                    continue;
                }
                Err(o) => {
                    acc.violation(&format!("{} deserialization-panics", fmt), case(), "the program reads back".into(), o.show());
                    continue;
                }
            };
            acc.eval();
            acc.class("roundtrip");
            if back.source() != prog.source() {
                acc.violation(&format!("{} source-differs", fmt), case(), format!("{:?}", prog.source()), format!("{:?}", back.source()));
            }
            let back_params: BTreeSet<String> = back.params().into_iter().map(|s| s.to_string()).collect();
            if back_params != orig_params {
                acc.violation(&format!("{} params-differ", fmt), case(), format!("{:?}", orig_params), format!("{:?}", back_params));
            }
            // fixpoint: a second round trip is byte-identical (params are a set: compare after sorting for JSON)
            let again: Option<Vec<u8>> = match fmt {
                "json" => serde_json::to_vec(&back).ok(),
                _ => bincode::serialize(&back).ok(),
            };
            if let Some(a) = again {
                // hash maps and parameter sets are written in their own iteration order: byte equality is
                // demanded only without them, equal length otherwise
                let ordered = orig_params.len() <= 1 && !bc_text.contains("Map(");
                let same = if ordered { a == bytes } else { a.len() == bytes.len() };

                if !same {
                    acc.violation(&format!("{} second-round-trip-differs", fmt), case(), format!("{} identical bytes", bytes.len()), format!("{} bytes", a.len()));
                }
            }
            // a map constant is rebuilt by every deserialization (new hasher, new iteration order):
            // read the same bytes several times
            let mut backs: Vec<Program> = vec![back.clone()];
            if bc_text.contains("Map(") {
                for _ in 0..7 {
                    if let Ok(Ok(p)) = real::guarded("deserialize", || match fmt {
                        "json" => serde_json::from_slice::<Program>(&bytes).map_err(|e| format!("{}", e)),
                        _ => bincode::deserialize::<Program>(&bytes).map_err(|e| format!("{}", e)),
                    }) {
                        backs.push(p);
                        acc.eval();
                    }
                }
            }
            // behaviour under bindings
            let vars: Vec<String> = orig_params.iter().filter(|p| ["x", "y", "z", "w", "p", "q", "l"].contains(&p.as_str())).cloned().collect();
            for a in ASSIGN {
                let mut b = BindContext::new();
                if let Some(val) = a {
                    if let Outcome::Value(cv) = real::eval(val, &[]) {
                        for v in &vars {
                            if v == "l" {
                                b.bind_param(v, CelValue::List(vec![cv.clone(), CelValue::Int(2)]));
                            } else {
                                b.bind_param(v, cv.clone());
                            }
                        }
                    }
                }
                let r1 = real::exec_prog(prog.clone(), &b);
                acc.eval();
                acc.class(&r1.class());
                for back in &backs {
                let r2 = real::exec_prog(back.clone(), &b);
                acc.eval();
                if r2.is_panic() {
                    acc.violation(&format!("{} round-tripped-program-panics", fmt), case(), r1.show(), r2.show());
                } else if !r1.agrees(&r2) {
                    // now()/timestamp() read the clock: only the class is compared for them
                    if (src.contains("now()") || src.contains("timestamp()")) && r1.class() == r2.class() {
                        continue;
                    }
                    let what = classify_constants(&bc_text);
                    acc.violation(
                        &format!("{} round-tripped-program-behaves-differently [{}]", fmt, what),
                        json!({"src": src, "format": fmt, "binding_of_every_variable": a}),
                        r1.show(),
                        r2.show(),
                    );
                    break;
                }
                }
                if vars.is_empty() {
                    break;
                }
            }
            if acc.wants_sample() {
                acc.sample(json!({"src": src, "format": fmt, "serialized_bytes": bytes.len(), "json": if fmt == "json" { String::from_utf8_lossy(&bytes).chars().take(300).collect::<String>() } else { String::new() }}));
            }
        }
    }
}

/// how deep code blocks are nested in a bytecode listing
fn block_depth(bc: &str) -> usize {
    let (mut d, mut m) = (0usize, 0usize);
    let mut rest = bc;
    loop {
        let o = rest.find("CelByteCode { inner: [");
        let c = rest.find("] }");
        match (o, c) {
            (Some(o), Some(c)) if o < c => {
                d += 1;
                m = m.max(d);
                rest = &rest[o + 22..];
            }
            (_, Some(c)) => {
                d = d.saturating_sub(1);
                rest = &rest[c + 3..];
            }
            (Some(o), None) => {
                d += 1;
                m = m.max(d);
                rest = &rest[o + 22..];
            }
            (None, None) => break,
        }
    }
    m
}

/// how deep list and map constants are nested in a bytecode listing
fn value_depth(bc: &str) -> usize {
    let (mut d, mut m) = (0usize, 0usize);
    let b = bc.as_bytes();
    let mut i = 0;
    let mut stack: Vec<bool> = Vec::new();
    while i < b.len() {
        if bc[i..].starts_with("List([") || bc[i..].starts_with("Map({") {
            d += 1;
            m = m.max(d);
            stack.push(true);
            i += 5;
            continue;
        }
        match b[i] {
            b'(' | b'[' | b'{' => stack.push(false),
            b')' | b']' | b'}' => {
                if stack.pop() == Some(true) {
                    d = d.saturating_sub(1);
                }
            }
            _ => {}
        }
        i += 1;
    }
    m
}

/// which kinds of constants the bytecode holds (site-level signature of a failure)
fn classify_constants(bc: &str) -> String {
    let mut k = Vec::new();
    for (needle, name) in [
        ("Err(", "error-constant"),
        ("Float(inf", "infinite-double"),
        ("Float(-inf", "infinite-double"),
        ("Float(NaN", "nan"),
        ("TimeStamp(", "timestamp"),
        ("Duration(", "duration"),
        ("Bytes(", "bytes"),
        ("ByteCode(", "nested-block"),
        ("Map(", "map"),
        ("Type(", "type"),
    ] {
        if bc.contains(needle) && !k.contains(&name) {
            k.push(name);
        }
    }
    if k.is_empty() {
        "plain".to_string()
    } else {
        k.join("+")
    }
}

pub fn replay_families(t: Tier) -> Vec<Family<'static>> {
    let sp: &'static Space = Box::leak(Box::new(Space::new(t)));
    vec![Family::new("programs", sp.srcs.len() as u64, move |i, a| sp.run(i, a))]
}

pub fn run(t: Tier) -> i32 {
    let mut rep = Report::new(ID, t, "exploration");
    let sp = Space::new(t);
    rep.rule = format!(
        "programs: {} programs = the C10 program set (C09's templates in every literal/variable mask, logic trees, matches, f-strings, macros, chains: every ByteCode variant and nested code blocks) plus {} constant-rich programs (every serialisable value variant with boundary payloads - int/uint extremes, +-0.0, +-inf, NaN, subnormal, strings with quotes/NUL/non-BMP, all 256 bytes, nested lists and maps, types, timestamps and durations at millisecond resolution incl. negative and extreme - and every error constant the folder produces, each alone, in a list, a map, a comparison, a macro, a ternary and a coalesce; folded maps of 2 and 12 keys under filter/map forms whose body fails with a different class on different keys; every alternation of two of 9 nesting constructs - calls, method calls, macros, lists, maps, parentheses, coalesce, ?:, match arms - at every depth 1..32 with a variable and with a constant at the bottom, every fourth depth also inside an f-string hole: as deep as the parser accepts; values nested 1..200 deep by chains of folded calls, doubles a fast parser reads back one ulp off, leap-second texts, folded type constants of every type, identifiers of every lexical shape as parameters, timestamps before the epoch with a millisecond part; folded constants only a call can produce (double('-0.0'), infinities, NaN, a subnormal); branches of 200, 40000 and 70000 instructions under ?:, ||, && and match, run with the bindings that take and that skip the long jump) x {{serde_json, bincode}}: serialization and deserialization succeed, source and parameter set are equal, a second round trip has the same bytes, and original and round-tripped program give the same value or the same error kind under 5 bindings of their variables (1, 'a', true, 0, unbound); a program holding a map constant is read back 8 times from the same bytes (every reading builds a new map) and each reading is compared. Non-trivial = every compiled program; distinct by source",
        sp.srcs.len(),
        constant_rich().len()
    );
    rep.run_family(Family::new("programs", sp.srcs.len() as u64, |i, a| sp.run(i, a)));
    rep.assumptions = vec![
        "sub-millisecond time constants are outside the statement (millisecond resolution) and are not generated".into(),
        "for programs reading the clock only the outcome class is compared".into(),
    ];
    rep.finish()
}
