//! C17 — the reported parameter list covers every variable a program can read, contains no
//! name that does not occur in the source, and filter_from_bindings removes exactly the bound names.
use crate::engine::*;
use crate::real::{self, ErrKind, Outcome};
use rscel::{BindContext, CelValue};
use serde_json::json;
use std::collections::BTreeSet;

pub const ID: &str = "C17";

/// (position name, template with `$`, other identifiers occurring in the template)
fn positions() -> Vec<(&'static str, &'static str, &'static [&'static str])> {
    vec![
        ("operand +", "$ + 1", &[]),
        ("operand - rhs", "1 - $", &[]),
        ("operand *", "$ * 2", &[]),
        ("operand <", "$ < 3", &[]),
        ("operand &&", "$ && true", &[]),
        ("operand || rhs", "false || $", &[]),
        ("operand !", "!$", &[]),
        ("operand neg", "-$", &[]),
        ("operand in lhs", "$ in [1]", &[]),
        ("operand in rhs", "1 in $", &[]),
        ("call argument", "abs($)", &["abs"]),
        ("call argument 2", "max(1, $)", &["max"]),
        ("call receiver", "$.size()", &["size"]),
        ("method argument", "'a'.contains($)", &["contains"]),
        ("type constructor argument", "int($)", &["int"]),
        ("macro range", "$.map(i, i)", &["map", "i"]),
        ("macro body", "[1].map(i, $)", &["map", "i"]),
        ("nested macro body", "[1].map(i, [2].map(j, $))", &["map", "i", "j"]),
        ("macro predicate", "[1].filter(i, $)", &["filter", "i"]),
        ("map/3 expression", "[1].map(i, true, $)", &["map", "i"]),
        ("reduce seed", "[1].reduce(a, i, a, $)", &["reduce", "a", "i"]),
        ("reduce step", "[1].reduce(a, i, $, 0)", &["reduce", "a", "i"]),
        ("f-string segment", "f'{$}'", &[]),
        ("f-string segment between text", "f'a{$}b'", &[]),
        ("first of two f-string segments", "f'{$} and {recv}'", &["recv"]),
        ("second of two f-string segments", "f'{recv} and {$}'", &["recv"]),
        ("middle of three f-string segments", "f'{recv}{$}{recv}'", &["recv"]),
        ("index expression", "[1, 2][$]", &[]),
        ("indexed object", "$[0]", &[]),
        ("map key", "{$: 1}", &[]),
        ("map value", "{'k': $}", &[]),
        ("list element", "[0, $]", &[]),
        ("match scrutinee", "match $ { case 1: 2 }", &[]),
        ("match pattern", "match 1 { case $: 2 }", &[]),
        ("match comparison pattern", "match 1 { case >$: 2 }", &[]),
        ("match arm", "match 1 { case 1: $ }", &[]),
        ("match default arm", "match 1 { case 2: 0, case _: $ }", &["_"]),
        ("ternary condition", "$ ? 1 : 2", &[]),
        ("ternary true branch", "true ? $ : 2", &[]),
        ("untaken false branch", "true ? 1 : $", &[]),
        ("untaken true branch", "false ? $ : 1", &[]),
        ("has argument", "has($)", &["has"]),
        ("coalesce argument", "coalesce($, 1)", &["coalesce"]),
        ("coalesce later argument", "coalesce(null, $)", &["coalesce"]),
        ("member chain root", "($).a.b", &["a", "b"]),
        ("parenthesised", "(($))", &[]),
        ("both sides of ==", "$ == $", &[]),
        ("call argument of a user function", "myfn($, 1)", &["myfn"]),
        // calls that also read the clock (never folded)
        ("argument next to a clock read", "max($, size(string(now())))", &["max", "size", "string", "now"]),
        ("macro range with a clock read in the body", "[$].map(i, i == now())", &["map", "i", "now"]),
        ("operand of a clock difference", "(now() - $).getSeconds()", &["now", "getSeconds"]),
        ("argument of timestamp()", "[timestamp(), $]", &["timestamp"]),
        // type patterns
        ("match scrutinee with type patterns", "match $ { case int: 1, case string: 2, case _: 0 }", &["_"]),
        ("match arm after a type pattern", "match 1 { case int: $, case _: 0 }", &["_"]),
        ("argument of a method on a variable", "recv.call($)", &["recv", "call"]),
        // the range (or the seed) reads a variable named like the variable the macro declares
        ("range reading the loop-variable name", "[lv, $].filter(lv, lv > 1)", &["filter", "lv"]),
        ("map range reading the loop-variable name", "[lv, $].map(lv, lv)", &["map", "lv"]),
        ("range that is the loop-variable name", "lv.map(lv, [lv, $])", &["map", "lv"]),
        ("all over a range reading the loop-variable name", "[lv].all(lv, lv == $)", &["all", "lv"]),
        ("reduce seed reading the accumulator name", "[1, $].reduce(ra, e, ra + e, ra)", &["reduce", "ra", "e"]),
        ("reduce range reading the element name", "[ra, $].reduce(a, ra, a + ra, 0)", &["reduce", "ra", "a"]),
    ]
}

/// (filler text, free variables, other identifiers)
fn fillers() -> Vec<(&'static str, &'static [&'static str], &'static [&'static str])> {
    vec![
        ("va", &["va"], &[]),
        ("(va + vb)", &["va", "vb"], &[]),
        ("([1].map(x, x)[0] + x)", &["x"], &["map"]),
        ("va.f", &["va"], &["f"]),
        // variables spelled like built-in functions and macros
        ("(max + filter)", &["max", "filter"], &[]),
        ("[size, min][0]", &["size", "min"], &[]),
    ]
}

fn known_reader(name: &str) -> bool {
    // names the templates read as variables themselves
    name == "recv" || name == "lv" || name == "ra"
}

pub struct Space {
    pos: Vec<(&'static str, &'static str, &'static [&'static str])>,
    fil: Vec<(&'static str, &'static [&'static str], &'static [&'static str])>,
}

impl Space {
    pub fn new() -> Space {
        Space { pos: positions(), fil: fillers() }
    }
    fn single_size(&self) -> u64 {
        (self.pos.len() * self.fil.len()) as u64
    }
    fn triple_size(&self) -> u64 {
        (self.pos.len() as u64).pow(3) * self.fil.len() as u64
    }
    /// thorough: three positions nested
    fn run_triple(&self, idx: u64, acc: &mut Acc) {
        let np = self.pos.len() as u64;
        let d = unrank(idx, &[np, np, np, self.fil.len() as u64]);
        let (p1, p2, p3) = (&self.pos[d[0] as usize], &self.pos[d[1] as usize], &self.pos[d[2] as usize]);
        let f = &self.fil[d[3] as usize];
        // f-strings cannot hold quotes or braces of their own kind: keep them innermost-free
        if [p1, p2].iter().any(|p| p.1.starts_with("f'")) {
            return;
        }
        if p3.1.starts_with("f'") && f.0.contains('\'') {
            return;
        }
        let s3 = p3.1.replace('$', f.0);
        let s2 = p2.1.replace('$', &format!("({})", s3));
        let src = p1.1.replace('$', &format!("({})", s2));
        let mut free: BTreeSet<String> = f.1.iter().map(|x| x.to_string()).collect();
        let mut idents = Self::idents_of(p1.2, f);
        for p in [p1, p2, p3] {
            free.extend(p.2.iter().filter(|n| known_reader(n)).map(|x| x.to_string()));
            idents.extend(p.2.iter().map(|x| x.to_string()));
        }
        self.check(acc, &format!("[{}] inside [{}] inside [{}]", p3.0, p2.0, p1.0), &src, &free, &idents);
    }
    fn pair_size(&self) -> u64 {
        (self.pos.len() * self.pos.len() * self.fil.len()) as u64
    }

    fn check(&self, acc: &mut Acc, site: &str, src: &str, free: &BTreeSet<String>, idents: &BTreeSet<String>) {
        let prog = match real::compile(src) {
            Ok(p) => p,
            Err(o) => {
                acc.eval();
                acc.class(&o.class());
                if o.is_panic() {
                    acc.violation(&format!("{} compile-panic", site), json!({"src": src}), "compiles or a syntax error".into(), o.show());
                }
                // some nestings are not grammatical (a match inside an operand without parentheses): skipped
                acc.count("ungrammatical nestings skipped", 1);
                return;
            }
        };
        acc.eval();
        acc.class("compiled");
        acc.nontrivial(src);
        let params: BTreeSet<String> = prog.params().into_iter().map(|s| s.to_string()).collect();
        let missing: Vec<&String> = free.iter().filter(|f| !params.contains(*f)).collect();
        let case = || json!({"src": src, "reported": params, "free_variables": free});
        if !missing.is_empty() {
            acc.violation(
                &format!("{} readable-variable-not-reported", site),
                case(),
                format!("a list containing {:?}", free),
                format!("{:?} (missing {:?})", params, missing),
            );
        }
        let alien: Vec<&String> = params.iter().filter(|p| !idents.contains(*p)).collect();
        if !alien.is_empty() {
            acc.violation(&format!("{} reports-a-name-not-in-the-source", site), case(), format!("a subset of {:?}", idents), format!("{:?}", params));
        }
        // evaluation criterion: with every reported name bound, no free variable is still unbound
        let mut b = BindContext::new();
        for p in &params {
            b.bind_param(p, CelValue::Int(1));
        }
        let got = real::exec_prog(prog.clone(), &b);
        acc.eval();
        acc.class(&got.class());

        if let Outcome::Fail(ErrKind::Binding, msg) = &got {
            if let Some(f) = free.iter().find(|f| msg.ends_with(&format!(": {}", f))) {
                acc.violation(
                    &format!("{} binding-every-reported-name-leaves-a-variable-unbound", site),
                    case(),
                    "no unbound-variable failure for a variable of the program".into(),
                    format!("{} ({} unbound)", got.show(), f),
                );
            }
        }
        if got.is_panic() {
            acc.violation(&format!("{} exec-panic", site), case(), "a value or an error".into(), got.show());
        }
        // relevance: binding names that are NOT reported (type names, other identifiers of the
        // source, names that do not occur at all) must not change the result
        if !src.contains("now()") && !src.contains("timestamp()") {
            let mut b2 = BindContext::new();
            for p in &params {
                b2.bind_param(p, CelValue::Int(1));
            }
            let mut extra = Vec::new();
            for name in ["int", "string", "bool", "list", "unrelated_zz"].iter().map(|s| s.to_string()).chain(idents.iter().cloned()) {
                if !params.contains(&name) && !free.contains(&name) {
                    b2.bind_param(&name, CelValue::String("spurious".into()));
                    extra.push(name);
                }
            }
            let got2 = real::exec_prog(prog.clone(), &b2);
            acc.eval();
            if !got.agrees(&got2) {
                acc.violation(
                    &format!("{} result-depends-on-an-unreported-name", site),
                    json!({"src": src, "reported": params, "additionally_bound": extra}),
                    got.show(),
                    got2.show(),
                );
            }
        }
        // filter_from_bindings removes exactly the names the set binds
        for mask in 0u32..(1 << free.len().min(2)) {
            let mut fb = BindContext::new();
            let mut bound_vars: BTreeSet<String> = BTreeSet::new();
            for (i, f) in free.iter().take(2).enumerate() {
                if mask & (1 << i) != 0 {
                    // the first one bound to null: a null value is still a binding
                    fb.bind_param(f, if i == 0 { CelValue::Null } else { CelValue::Int(1) });
                    bound_vars.insert(f.clone());
                }
            }
            let mut d = prog.details().clone();
            if real::guarded("filter", || d.filter_from_bindings(&fb)).is_err() {
                acc.violation(&format!("{} filter-panic", site), case(), "a filtered list".into(), "panic".into());
                continue;
            }
            acc.eval();
            let after: BTreeSet<String> = d.params().into_iter().map(|s| s.to_string()).collect();
            let expected: BTreeSet<String> = params
                .iter()
                .filter(|p| !(bound_vars.contains(*p) || fb.get_func(p).is_some() || fb.get_macro(p).is_some()))
                .cloned()
                .collect();
            if after != expected {
                acc.violation(
                    &format!("{} filter_from_bindings-wrong-set", site),
                    json!({"src": src, "reported": params, "bound_as_variables": bound_vars}),
                    format!("{:?}", expected),
                    format!("{:?}", after),
                );
            }
        }
        if acc.wants_sample() {
            acc.sample(json!({"src": src, "free_variables": free, "reported": params}));
        }
    }

    fn idents_of(tmpl: &[&str], fil: &(&'static str, &'static [&'static str], &'static [&'static str])) -> BTreeSet<String> {
        let mut s: BTreeSet<String> = tmpl.iter().map(|x| x.to_string()).collect();
        s.extend(fil.1.iter().map(|x| x.to_string()));
        s.extend(fil.2.iter().map(|x| x.to_string()));
        s
    }

    fn run_single(&self, idx: u64, acc: &mut Acc) {
        let p = &self.pos[(idx / self.fil.len() as u64) as usize];
        let f = &self.fil[(idx % self.fil.len() as u64) as usize];
        let src = p.1.replace('$', f.0);
        let mut free: BTreeSet<String> = f.1.iter().map(|x| x.to_string()).collect();
        free.extend(p.2.iter().filter(|n| known_reader(n)).map(|x| x.to_string()));
        let idents = Self::idents_of(p.2, f);
        self.check(acc, &format!("[{}]", p.0), &src, &free, &idents);
    }

    fn run_pair(&self, idx: u64, acc: &mut Acc) {
        let nf = self.fil.len() as u64;
        let np = self.pos.len() as u64;
        let d = unrank(idx, &[np, np, nf]);
        let outer = &self.pos[d[0] as usize];
        let inner = &self.pos[d[1] as usize];
        let f = &self.fil[d[2] as usize];
        // f-strings cannot hold quotes of their own kind
        if outer.1.starts_with("f'") && (inner.1.contains('\'') || f.0.contains('\'')) {
            return;
        }
        if inner.1.starts_with("f'") && f.0.contains('\'') {
            return;
        }
        let inner_src = inner.1.replace('$', f.0);
        // `{{` inside an f-string is an escaped brace, not a map literal
        if outer.1.starts_with("f'") && inner_src.starts_with('{') {
            return;
        }

        let src = outer.1.replace('$', &format!("({})", inner_src));
        let src = if outer.1.starts_with("f'") { outer.1.replace('$', &inner_src) } else { src };
        let mut free: BTreeSet<String> = f.1.iter().map(|x| x.to_string()).collect();
        for p in [outer, inner] {
            free.extend(p.2.iter().filter(|n| known_reader(n)).map(|x| x.to_string()));
        }
        let mut idents = Self::idents_of(outer.2, f);
        idents.extend(inner.2.iter().map(|x| x.to_string()));
        self.check(acc, &format!("[{}] inside [{}]", inner.0, outer.0), &src, &free, &idents);
    }
}

pub fn replay_families(_t: Tier) -> Vec<Family<'static>> {
    let sp: &'static Space = Box::leak(Box::new(Space::new()));
    vec![
        Family::new("nested-3-positions", sp.triple_size(), move |i, a| sp.run_triple(i, a)),
        Family::new("positions", sp.single_size(), move |i, a| sp.run_single(i, a)),
        Family::new("nested-positions", sp.pair_size(), move |i, a| sp.run_pair(i, a)),
    ]
}

pub fn run(t: Tier) -> i32 {
    let mut rep = Report::new(ID, t, "exploration");
    let sp = Space::new();
    rep.rule = format!(
        "positions: {} syntactic positions (operands of every operator class, call arguments and receivers, type constructor and user function arguments, macro ranges, bodies, nested bodies, predicates, reduce seed/step, f-string segments, index expressions, indexed objects, map keys and values, list elements, match scrutinees, patterns and arms, ternary conditions and branches incl. untaken ones under a constant condition, has/coalesce arguments, member chain roots, parentheses) x {} fillers (one variable, two variables, a variable also used as a loop variable elsewhere, a variable with a field access); nested-positions: all ordered pairs of positions x fillers (thorough: also all ordered triples). The generator knows the free variables it placed and every identifier in the text: Free(E) must be contained in params(E), params(E) in Idents(E); binding every reported name must not leave a free variable unbound; additionally binding every unreported name (type names, other identifiers of the source, an unrelated name) must not change the result; filter_from_bindings must remove exactly the names bound as variable (every subset of up to 2 free variables), function or macro (the default tables). Non-trivial = every grammatical program; distinct by source",
        sp.pos.len(),
        sp.fil.len()
    );
    rep.run_family(Family::new("positions", sp.single_size(), |i, a| sp.run_single(i, a)));
    rep.run_family(Family::new("nested-positions", sp.pair_size(), |i, a| sp.run_pair(i, a)));
    if t == Tier::Thorough {
        rep.run_family(Family::new("nested-3-positions", sp.triple_size(), |i, a| sp.run_triple(i, a)));
    }
    rep.assumptions = vec![
        "loop variables, function names and field names may be reported (they occur in the source); only names that do not occur at all are excluded".into(),
    ];
    rep.finish()
}
