//! C06 — collections: literals, indexing (incl. negative), membership, concatenation, size.
use crate::engine::*;
use crate::real::{self, ErrKind, Outcome};
use crate::refmodel;
use crate::val::{str_lit, V};
use serde_json::json;
use std::collections::BTreeMap;

pub const ID: &str = "C06";

/// one value per type, incl. a nested list and a nested map
fn elems() -> Vec<V> {
    vec![
        V::Int(7),
        V::UInt(2),
        V::Dbl(1.5),
        V::s("a"),
        V::Bool(true),
        V::Null,
        V::Bytes(vec![97]),
        V::list(&[V::Int(1)]),
        V::map(&[("k", V::Int(1))]),
    ]
}

fn lists_upto(alpha: &[V], maxlen: usize) -> Vec<Vec<V>> {
    let mut out: Vec<Vec<V>> = vec![vec![]];
    let mut last: Vec<Vec<V>> = vec![vec![]];
    for _ in 0..maxlen {
        let mut next = Vec::new();
        for l in &last {
            for e in alpha {
                let mut n = l.clone();
                n.push(e.clone());
                next.push(n);
            }
        }
        out.extend(next.iter().cloned());
        last = next;
    }
    out
}

#[derive(Clone, Copy, Debug, PartialEq, Eq, Hash)]
enum LForm {
    /// list literal of literals (folded by the compiler)
    Lit,
    /// list literal whose elements are bound variables (MkList in the VM)
    LitVars,
    /// the whole list bound to a variable
    Bound,
}
const LFORMS: [LForm; 3] = [LForm::Lit, LForm::LitVars, LForm::Bound];

fn render_list(l: &[V], form: LForm, name: &str, binds: &mut Vec<(String, V)>) -> String {
    match form {
        LForm::Lit => V::List(l.to_vec()).lit().unwrap(),
        LForm::LitVars => {
            let mut parts = Vec::new();
            for (i, e) in l.iter().enumerate() {
                let n = format!("{}{}", name, i);
                binds.push((n.clone(), e.clone()));
                parts.push(n);
            }
            format!("[{}]", parts.join(", "))
        }
        LForm::Bound => {
            binds.push((name.to_string(), V::List(l.to_vec())));
            name.to_string()
        }
    }
}

fn run_src(src: &str, binds: &[(String, V)]) -> Outcome {
    let b: Vec<(&str, V)> = binds.iter().map(|(k, v)| (k.as_str(), v.clone())).collect();
    real::eval(src, &b)
}

#[derive(Clone, Debug)]
enum Want {
    Val(V),
    /// any failure
    Fail,
    /// an absent-field failure (Attribute)
    Absent,
    /// Bool(false) or a failure, never true
    FalseOrFail,
    Unspec,
}
impl Want {
    fn show(&self) -> String {
        match self {
            Want::Val(v) => format!("Value({})", v.show()),
            Want::Fail => "Fail".into(),
            Want::Absent => "Fail(absent field: Attribute)".into(),
            Want::FalseOrFail => "Value(false) or Fail".into(),
            Want::Unspec => "Unspecified".into(),
        }
    }
}

fn judge(w: &Want, got: &Outcome) -> Option<&'static str> {
    if got.is_panic() {
        return Some("panic");
    }
    if got.is_compile_fail() {
        return Some("compile-error");
    }
    match w {
        Want::Unspec => None,
        Want::Fail => (!got.is_fail()).then_some("value-instead-of-error"),
        Want::Absent => match got {
            Outcome::Fail(ErrKind::Attribute, _) => None,
            Outcome::Fail(..) => Some("wrong-error-kind-for-absent-field"),
            _ => Some("value-instead-of-error"),
        },
        Want::FalseOrFail => match got.value() {
            Some(V::Bool(false)) => None,
            Some(_) => Some("wrong-value"),
            None => None,
        },
        Want::Val(v) => match got.value() {
            Some(g) if g.same(v) => None,
            Some(_) => Some("wrong-value"),
            None => Some("error-instead-of-value"),
        },
    }
}

fn report(acc: &mut Acc, site: &str, src: &str, binds: &[(String, V)], w: &Want, got: &Outcome) {
    acc.eval();
    acc.class(&got.class());
    if !matches!(w, Want::Unspec) {
        acc.nontrivial(&(acc.family.clone(), acc.index, src));
    }
    if let Some(kind) = judge(w, got) {
        acc.violation(
            &format!("{} {}", site, kind),
            json!({"src": src, "bindings": binds.iter().map(|(k, v)| json!([k, v.show()])).collect::<Vec<_>>()}),
            w.show(),
            got.show(),
        );
    }
    if acc.wants_sample() {
        acc.sample(json!({"src": src, "expected": w.show(), "observed": got.show()}));
    }
}

// ---------------------------------------------------------------------------

#[derive(Clone, Debug)]
enum Idx {
    I(i64),
    U(u64),
    Other(V),
}

fn indices(len: usize) -> Vec<Idx> {
    let n = len as i64;
    let mut out = Vec::new();
    for i in (-n - 2)..=(n + 2) {
        out.push(Idx::I(i));
    }
    out.push(Idx::I(i64::MIN));
    out.push(Idx::I(i64::MIN + 1));
    out.push(Idx::I(i64::MAX));
    for u in 0..=(len as u64 + 1) {
        out.push(Idx::U(u));
    }
    out.push(Idx::U(u64::MAX));
    out.push(Idx::U(1 << 63));
    out.push(Idx::U(1 << 32));
    // an index whose low 32 bits are a valid position
    for j in 0..=(len as i64) {
        out.push(Idx::I((1i64 << 32) + j));
        out.push(Idx::I((1i64 << 33) + j));
        out.push(Idx::I(-(1i64 << 32) + j));
        out.push(Idx::U((1u64 << 32) + j as u64));
    }
    for v in [V::Dbl(1.0), V::Dbl(0.0), V::s("a"), V::s("0"), V::Bool(true), V::Null, V::list(&[V::Int(0)]), V::Bytes(vec![0])] {
        out.push(Idx::Other(v));
    }
    out
}

fn ref_index(l: &[V], i: &Idx) -> Want {
    let n = l.len() as i128;
    match i {
        Idx::I(i) => {
            let i = *i as i128;
            if 0 <= i && i < n {
                Want::Val(l[i as usize].clone())
            } else if -n <= i && i < 0 {
                Want::Val(l[(n + i) as usize].clone())
            } else {
                Want::Fail
            }
        }
        Idx::U(u) => {
            if (*u as i128) < n {
                Want::Val(l[*u as usize].clone())
            } else {
                Want::Fail
            }
        }
        Idx::Other(_) => Want::Fail,
    }
}

pub struct Space {
    lists: Vec<Vec<V>>,
    /// lists of length <= 2 (for concatenation pairs)
    short: Vec<Vec<V>>,
    maps: Vec<Vec<(usize, usize)>>, // entries: (key index, value id)
    strs: Vec<String>,
    needles: Vec<String>,
    byts: Vec<Vec<u8>>,
}

// `size` is also the name of a built-in function: a stored field must still win
const KEYS: [&str; 4] = ["a", "b", "", "size"];

fn strings_upto(alpha: &[&str], maxlen: usize) -> Vec<String> {
    let mut out = vec![String::new()];
    let mut last = vec![String::new()];
    for _ in 0..maxlen {
        let mut next = Vec::new();
        for s in &last {
            for c in alpha {
                next.push(format!("{}{}", s, c));
            }
        }
        out.extend(next.iter().cloned());
        last = next;
    }
    out
}

impl Space {
    pub fn new(t: Tier) -> Space {
        let lists = lists_upto(&elems(), t.pick(3, 5));
        let short = lists_upto(&elems(), 2);
        // map literals: sequences of (key, value-id) with repetition of keys
        let maxe = t.pick(3usize, 5usize);
        let mut maps: Vec<Vec<(usize, usize)>> = vec![vec![]];
        let mut last: Vec<Vec<(usize, usize)>> = vec![vec![]];
        for pos in 0..maxe {
            let mut next = Vec::new();
            for m in &last {
                for k in 0..KEYS.len() {
                    let mut n = m.clone();
                    n.push((k, pos));
                    next.push(n);
                }
            }
            maps.extend(next.iter().cloned());
            last = next;
        }
        let strs = strings_upto(&["a", "b", "é"], t.pick(3, 4));
        let needles = strings_upto(&["a", "b", "é"], 2);
        let mut byts: Vec<Vec<u8>> = vec![vec![]];
        for a in [0u8, 97, 0xff] {
            byts.push(vec![a]);
            for b in [0u8, 97, 0xff] {
                byts.push(vec![a, b]);
            }
        }
        Space { lists, short, maps, strs, needles, byts }
    }

    // -- family: list literal value, size, indexing ---------------------------------------
    fn run_list(&self, idx: u64, acc: &mut Acc) {
        let l = &self.lists[idx as usize];
        for lf in LFORMS {
            // the list itself
            let mut binds = Vec::new();
            let ls = render_list(l, lf, "l", &mut binds);
            let got = run_src(&ls, &binds);
            report(acc, &format!("list-value {:?}", lf), &ls, &binds, &Want::Val(V::List(l.clone())), &got);
            for src in [format!("size({})", ls), format!("{}.size()", ls)] {
                let got = run_src(&src, &binds);
                report(acc, &format!("list-size {:?}", lf), &src, &binds, &Want::Val(V::UInt(l.len() as u64)), &got);
            }
            for i in indices(l.len()) {
                let w = ref_index(l, &i);
                let iv = match &i {
                    Idx::I(i) => V::Int(*i),
                    Idx::U(u) => V::UInt(*u),
                    Idx::Other(v) => v.clone(),
                };
                let class = match &i {
                    Idx::I(x) if *x < 0 => "negative-int",
                    Idx::I(_) => "int",
                    Idx::U(_) => "uint",
                    Idx::Other(_) => "non-integer",
                };
                for ivar in [false, true] {
                    let mut b2 = binds.clone();
                    let is = if ivar {
                        b2.push(("i".to_string(), iv.clone()));
                        "i".to_string()
                    } else {
                        iv.lit().unwrap()
                    };
                    let src = format!("{}[{}]", ls, is);
                    let got = run_src(&src, &b2);
                    report(acc, &format!("list-index {} {:?}/{}", class, lf, if ivar { "var" } else { "lit" }), &src, &b2, &w, &got);
                }
            }
        }
    }

    // -- family: membership in lists ------------------------------------------------------
    fn run_in_list(&self, idx: u64, acc: &mut Acc) {
        let l = &self.short[idx as usize];
        let mut probes = elems();
        probes.extend([V::Int(1), V::s("k"), V::Dbl(f64::NAN), V::list(&[]), V::map(&[]), V::Int(2), V::Dbl(7.0), V::UInt(7)]);
        for lf in LFORMS {
            for x in &probes {
                let mut definite_true = false;
                let mut unknown = false;
                for e in l {
                    if x.type_name() != e.type_name() {
                        // membership across types: never a definite member; cross-numeric equality left open
                        if refmodel::is_numeric(x) && refmodel::is_numeric(e) {
                            unknown = true;
                        }
                        continue;
                    }
                    match refmodel::eq(x, e) {
                        Some(true) => definite_true = true,
                        Some(false) => {}
                        None => unknown = true,
                    }
                }
                let w = if definite_true {
                    Want::Val(V::Bool(true))
                } else if unknown {
                    Want::Unspec
                } else {
                    Want::Val(V::Bool(false))
                };
                for xvar in [false, true] {
                    let mut binds = Vec::new();
                    let ls = render_list(l, lf, "l", &mut binds);
                    let xs = if xvar {
                        binds.push(("x".to_string(), x.clone()));
                        "x".to_string()
                    } else {
                        x.lit().unwrap()
                    };
                    let src = format!("{} in {}", xs, ls);
                    let got = run_src(&src, &binds);
                    report(acc, &format!("in-list {:?}", lf), &src, &binds, &w, &got);
                }
            }
        }
    }

    // -- family: concatenation of lists ---------------------------------------------------
    fn run_concat_lists(&self, idx: u64, acc: &mut Acc) {
        let n = self.short.len() as u64;
        let a = &self.short[(idx / n) as usize];
        let b = &self.short[(idx % n) as usize];
        let mut exp = a.clone();
        exp.extend(b.iter().cloned());
        for (fa, fb) in [(LForm::Lit, LForm::Lit), (LForm::Bound, LForm::Lit), (LForm::LitVars, LForm::Bound), (LForm::Bound, LForm::Bound)] {
            let mut binds = Vec::new();
            let sa = render_list(a, fa, "p", &mut binds);
            let sb = render_list(b, fb, "q", &mut binds);
            let src = format!("{} + {}", sa, sb);
            let got = run_src(&src, &binds);
            report(acc, "concat-list", &src, &binds, &Want::Val(V::List(exp.clone())), &got);
            let src = format!("size({} + {})", sa, sb);
            let got = run_src(&src, &binds);
            report(acc, "concat-list-size", &src, &binds, &Want::Val(V::UInt(exp.len() as u64)), &got);
        }
    }

    // -- family: map literals (duplicate keys), access, membership --------------------------
    fn run_map(&self, idx: u64, acc: &mut Acc) {
        let m = &self.maps[idx as usize];
        let mut refm: BTreeMap<String, V> = BTreeMap::new();
        // the value of the second entry is null: a key stored with a null value is still present
        let val_of = |vid: usize| if vid == 1 { V::Null } else { V::Int(10 + vid as i64) };
        for (k, vid) in m {
            refm.insert(KEYS[*k].to_string(), val_of(*vid));
        }
        // forms: which entries have a variable value / a variable key
        // 0 = all constant; 1..=n = value of entry j-1 is a variable; n+1 = all values variable;
        // n+2 = all keys variable; n+3 = whole map bound
        let n = m.len();
        for form in 0..(n + 4) {
            let mut binds: Vec<(String, V)> = Vec::new();
            let ms = if form == n + 3 {
                binds.push(("m".to_string(), V::Map(refm.clone())));
                "m".to_string()
            } else {
                let mut parts = Vec::new();
                for (j, (k, vid)) in m.iter().enumerate() {
                    let val = val_of(*vid);
                    let vs = if form == j + 1 || form == n + 1 {
                        let name = format!("v{}", j);
                        binds.push((name.clone(), val));
                        name
                    } else {
                        val.lit().unwrap()
                    };
                    let ks = if form == n + 2 {
                        let name = format!("k{}", j);
                        binds.push((name.clone(), V::s(KEYS[*k])));
                        name
                    } else {
                        str_lit(KEYS[*k])
                    };
                    parts.push(format!("{}: {}", ks, vs));
                }
                format!("{{{}}}", parts.join(", "))
            };
            let fname = if form == 0 {
                "all-constant"
            } else if form <= n {
                "one-variable-value"
            } else if form == n + 1 {
                "all-variable-values"
            } else if form == n + 2 {
                "variable-keys"
            } else {
                "bound-map"
            };
            if form >= 1 && form <= n && n == 0 {
                continue;
            }
            let got = run_src(&ms, &binds);
            report(acc, &format!("map-value {}", fname), &ms, &binds, &Want::Val(V::Map(refm.clone())), &got);
            for key in ["a", "b", "", "size", "zz"] {

                let w = match refm.get(key) {
                    Some(v) => Want::Val(v.clone()),
                    None => Want::Absent,
                };
                for kvar in [false, true] {
                    let mut b2 = binds.clone();
                    let ks = if kvar {
                        b2.push(("kk".to_string(), V::s(key)));
                        "kk".to_string()
                    } else {
                        str_lit(key)
                    };
                    let src = format!("{}[{}]", ms, ks);
                    let got = run_src(&src, &b2);
                    report(acc, &format!("map-index {}", fname), &src, &b2, &w, &got);
                    let src = format!("{} in {}", ks, ms);
                    let got = run_src(&src, &b2);
                    report(acc, &format!("in-map {}", fname), &src, &b2, &Want::Val(V::Bool(refm.contains_key(key))), &got);
                }
                if !key.is_empty() {
                    let src = format!("{}.{}", ms, key);
                    let got = run_src(&src, &binds);
                    report(acc, &format!("map-field {}", fname), &src, &binds, &w, &got);
                    // a bound variable spelled like the field must not be confused with the selector
                    let mut b3 = binds.clone();
                    for f in ["a", "b", "size", "zz"] {
                        b3.push((f.to_string(), V::s(if f == "a" { "b" } else { "a" })));
                    }
                    let got = run_src(&src, &b3);
                    report(acc, &format!("map-field {} with-a-variable-named-like-the-field", fname), &src, &b3, &w, &got);
                }
            }
            // non-string keys: never present
            for bad in [V::Int(1), V::Null, V::Bool(true), V::Bytes(vec![97]), V::list(&[V::s("a")])] {
                for kvar in [false, true] {
                    let mut b2 = binds.clone();
                    let ks = if kvar {
                        b2.push(("kk".to_string(), bad.clone()));
                        "kk".to_string()
                    } else {
                        bad.lit().unwrap()
                    };
                    let src = format!("{}[{}]", ms, ks);
                    let got = run_src(&src, &b2);
                    report(acc, &format!("map-index-nonstring {}", fname), &src, &b2, &Want::Fail, &got);
                    let src = format!("{} in {}", ks, ms);
                    let got = run_src(&src, &b2);
                    report(acc, &format!("in-map-nonstring {}", fname), &src, &b2, &Want::Fail, &got);
                }
            }
        }
    }

    // -- family: strings and bytes: substring in, concatenation, size ----------------------
    fn run_str(&self, idx: u64, acc: &mut Acc) {
        let h = &self.strs[idx as usize];
        for hvar in [false, true] {
            let mut binds = Vec::new();
            let hs = if hvar {
                binds.push(("h".to_string(), V::s(h)));
                "h".to_string()
            } else {
                str_lit(h)
            };
            for src in [format!("size({})", hs), format!("{}.size()", hs)] {
                let got = run_src(&src, &binds);
                report(acc, "string-size", &src, &binds, &Want::Val(V::UInt(h.len() as u64)), &got);
            }
            for nd in &self.needles {
                // naive window search over bytes
                let hb = h.as_bytes();
                let nb = nd.as_bytes();
                let found = nb.is_empty() || (hb.len() >= nb.len() && (0..=hb.len() - nb.len()).any(|i| &hb[i..i + nb.len()] == nb));
                for nvar in [false, true] {
                    let mut b2 = binds.clone();
                    let ns = if nvar {
                        b2.push(("n".to_string(), V::s(nd)));
                        "n".to_string()
                    } else {
                        str_lit(nd)
                    };
                    let src = format!("{} in {}", ns, hs);
                    let got = run_src(&src, &b2);
                    report(acc, "in-string", &src, &b2, &Want::Val(V::Bool(found)), &got);
                    if h.len() <= 4 {
                        let src = format!("{} + {}", hs, ns);
                        let got = run_src(&src, &b2);
                        report(acc, "concat-string", &src, &b2, &Want::Val(V::Str(format!("{}{}", h, nd))), &got);
                        let src = format!("size({} + {})", hs, ns);
                        let got = run_src(&src, &b2);
                        report(acc, "concat-string-size", &src, &b2, &Want::Val(V::UInt((h.len() + nd.len()) as u64)), &got);
                    }
                }
            }
        }
    }

    fn run_bytes(&self, idx: u64, acc: &mut Acc) {
        let n = self.byts.len() as u64;
        let a = &self.byts[(idx / n) as usize];
        let b = &self.byts[(idx % n) as usize];
        let mut exp = a.clone();
        exp.extend(b);
        for (va, vb) in [(false, false), (true, false), (false, true), (true, true)] {
            let mut binds = Vec::new();
            let sa = if va {
                binds.push(("a".to_string(), V::Bytes(a.clone())));
                "a".to_string()
            } else {
                V::Bytes(a.clone()).lit().unwrap()
            };
            let sb = if vb {
                binds.push(("b".to_string(), V::Bytes(b.clone())));
                "b".to_string()
            } else {
                V::Bytes(b.clone()).lit().unwrap()
            };
            let src = format!("{} + {}", sa, sb);
            let got = run_src(&src, &binds);
            report(acc, "concat-bytes", &src, &binds, &Want::Val(V::Bytes(exp.clone())), &got);
            let src = format!("size({} + {})", sa, sb);
            let got = run_src(&src, &binds);
            report(acc, "concat-bytes-size", &src, &binds, &Want::Val(V::UInt(exp.len() as u64)), &got);
            let src = format!("{}.size()", sa);
            let got = run_src(&src, &binds);
            report(acc, "bytes-size", &src, &binds, &Want::Val(V::UInt(a.len() as u64)), &got);
        }
    }

    // -- family: `in` / `+` on other operand types must fail --------------------------------
    fn others() -> Vec<V> {
        let mut v = elems();
        v.extend([V::Type("int".into()), V::Ts(0), V::Dur(0), V::s("")]);
        v
    }
    fn run_other(&self, idx: u64, acc: &mut Acc) {
        let o = Self::others();
        let n = o.len() as u64;
        let x = &o[(idx / n) as usize];
        let y = &o[(idx % n) as usize];
        // expected for `x in y`
        let w_in = match y {
            V::List(_) => Want::Unspec, // covered by in-list
            V::Map(_) => {
                if matches!(x, V::Str(_)) {
                    Want::Unspec // covered by in-map
                } else {
                    Want::Fail
                }
            }
            V::Str(_) => {
                if matches!(x, V::Str(_)) {
                    Want::Unspec // covered by in-string
                } else {
                    Want::Fail
                }
            }
            _ => Want::Fail,
        };
        // expected for `x + y`: only the concatenations are this property's; numeric and time
        // arithmetic belong to C03/C16
        let concat_kind = |v: &V| matches!(v, V::List(_) | V::Str(_) | V::Bytes(_));
        let w_add = if concat_kind(x) || concat_kind(y) {
            if x.type_name() == y.type_name() {
                Want::Unspec // covered above
            } else {
                Want::Fail
            }
        } else {
            Want::Unspec
        };
        for (vx, vy) in [(false, false), (true, true), (true, false), (false, true)] {
            let mut binds = Vec::new();
            let sx = if vx {
                binds.push(("x".to_string(), x.clone()));
                "x".to_string()
            } else {
                x.src().unwrap()
            };
            let sy = if vy {
                binds.push(("y".to_string(), y.clone()));
                "y".to_string()
            } else {
                y.src().unwrap()
            };
            let src = format!("{} in {}", sx, sy);
            let got = run_src(&src, &binds);
            report(acc, &format!("in {} in {}", x.type_name(), y.type_name()), &src, &binds, &w_in, &got);
            let src = format!("{} + {}", sx, sy);
            let got = run_src(&src, &binds);
            report(acc, &format!("concat {} + {}", x.type_name(), y.type_name()), &src, &binds, &w_add, &got);
        }
    }
}

fn families(sp: &'static Space) -> Vec<Family<'static>> {
    let o = Space::others().len() as u64;
    vec![
        Family::new("lists", sp.lists.len() as u64, move |i, a| sp.run_list(i, a)),
        Family::new("in-list", sp.short.len() as u64, move |i, a| sp.run_in_list(i, a)),
        Family::new("concat-lists", (sp.short.len() * sp.short.len()) as u64, move |i, a| sp.run_concat_lists(i, a)),
        Family::new("maps", sp.maps.len() as u64, move |i, a| sp.run_map(i, a)),
        Family::new("strings", sp.strs.len() as u64, move |i, a| sp.run_str(i, a)),
        Family::new("bytes", (sp.byts.len() * sp.byts.len()) as u64, move |i, a| sp.run_bytes(i, a)),
        Family::new("other-types", o * o, move |i, a| sp.run_other(i, a)),
        Family::new("in-long-lists", 9 * 9 * 7 * 3, run_in_long),
    ]
}

// -- family: membership in longer lists of mixed element types --------------------------------

/// a list of `len` fillers of one type with the needle at one place, probed by the needle: true at
/// every position and length; probed by an absent value of the needle's type: false
fn run_in_long(idx: u64, acc: &mut Acc) {
    let pool = elems();
    let n = pool.len() as u64;
    let lens = [4usize, 11, 12, 13, 16, 33, 100];
    let d = unrank(idx, &[n, n, lens.len() as u64, 3]);
    let (needle, filler, len) = (&pool[d[0] as usize], &pool[d[1] as usize], lens[d[2] as usize]);
    if d[0] == d[1] {
        return;
    }
    let pos = [0, len / 2, len - 1][d[3] as usize];
    let mut items = vec![filler.clone(); len];
    items[pos] = needle.clone();
    let l = V::List(items);
    let absent = match needle {
        V::Int(_) => V::Int(8),
        V::UInt(_) => V::UInt(9),
        V::Dbl(_) => V::Dbl(2.5),
        V::Str(_) => V::s("zz"),
        V::Bool(b) => V::Bool(!b),
        V::Bytes(_) => V::Bytes(vec![1, 2]),
        V::List(_) => V::list(&[V::Int(99)]),
        V::Map(_) => V::map(&[("zz", V::Int(1))]),
        _ => V::Int(8),
    };
    // cross-numeric equality is left open by the model: keep needle and filler apart
    let numeric = |v: &V| refmodel::is_numeric(v) || matches!(v, V::Bool(_));
    let open = numeric(needle) && numeric(filler);
    for (x, want, what) in [(needle, true, "present"), (&absent, false, "absent")] {
        if open && !want {
            continue;
        }
        if matches!(x, V::Bool(_)) && !want && numeric(filler) {
            continue;
        }
        for form in ["bound", "literal"] {
            let (src, binds): (String, Vec<(String, V)>) = if form == "bound" {
                ("x in l".to_string(), vec![("x".to_string(), x.clone()), ("l".to_string(), l.clone())])
            } else {
                match (x.lit(), l.lit()) {
                    (Some(a), Some(b)) => (format!("{} in {}", a, b), vec![]),
                    _ => continue,
                }
            };
            let got = run_src(&src, &binds);
            report(acc, &format!("in-long-list {} needle", what), &src, &binds, &Want::Val(V::Bool(want)), &got);
        }
    }
    acc.nontrivial(&("in-long", idx));
}

pub fn replay_families(t: Tier) -> Vec<Family<'static>> {
    let sp: &'static Space = Box::leak(Box::new(Space::new(t)));
    families(sp)
}

pub fn run(t: Tier) -> i32 {
    let mut rep = Report::new(ID, t, "exploration");
    let sp: &'static Space = Box::leak(Box::new(Space::new(t)));
    rep.rule = format!(
        "lists: all {} lists of length <= {} over 9 elements (one per type, incl. a nested list and map) x 3 forms (folded literal, literal of bound variables, bound list): value, size (function and method), and l[i] for every int in [-size-2, size+2], i64 extremes, every uint in [0, size+1], u64 extremes and 8 non-integer indices, literal and bound; in-list: every probe x every list of length <= 2; in-long-lists: lists of 4..100 fillers of one type holding a needle of another type at the first, middle or last place (all ordered pairs of 9 element types): the needle is a member, another value of its type is not, bound and literal; indices whose low 32 bits are a valid position (2^32 + j, 2^33 + j, -2^32 + j) must fail; concat-lists: all ordered pairs of lists of length <= 2 in 4 forms; maps: all {} map literals with <= {} entries over keys {{a, b, '', size (also a built-in function name)}} with repetition (last entry wins) in n+4 forms (all constant, each single value variable, all values variable, variable keys, bound map): value, m[k], m.k, k in m for present/absent/non-string keys; strings: all strings of length <= {} over {{a, b, e-acute}} x all needles of length <= 2: substring in, +, size (UTF-8 bytes); bytes: all pairs over 10 byte strings; other-types: `in` and `+` over all ordered pairs of one value per type must fail outside their domains. Non-trivial = the property fixes the outcome; distinct by (family, index, source)",
        sp.lists.len(),
        t.pick(3, 5),
        sp.maps.len(),
        t.pick(3, 5),
        t.pick(3, 4)
    );
    for f in families(sp) {
        rep.run_family(f);
    }
    rep.assumptions = vec![
        "membership of a number in a list holding a number of another numeric type is not fixed (the implementation uses strict equality there)".into(),
        "indexing strings/bytes and size of maps are not part of the statement (totality only)".into(),
        "an absent key must be reported with the Attribute error kind (what has()/coalesce() rely on)".into(),
    ];
    rep.finish()
}
