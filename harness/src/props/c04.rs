//! C04 — equality and ordering laws; sort / min / max agree with them.
use crate::engine::*;
use crate::grids::*;
use crate::real::{self, Outcome};
use crate::refmodel::{self, CmpRes};
use crate::val::{V, NS};
use serde_json::json;
use std::cmp::Ordering;
use std::sync::atomic::{AtomicU8, Ordering as AO};

pub const ID: &str = "C04";

const RELS: [&str; 6] = ["==", "!=", "<", "<=", ">", ">="];

fn contains_nan(v: &V) -> bool {
    match v {
        V::Dbl(d) => d.is_nan(),
        V::List(l) => l.iter().any(contains_nan),
        V::Map(m) => m.values().any(contains_nan),
        _ => false,
    }
}

pub fn grid(t: Tier) -> Vec<V> {
    let mut g = numeric_grid(t.pick(Tier::Quick, Tier::Quick));
    if t == Tier::Thorough {
        // a denser integer/unsigned band around the int/uint boundary and 2^53
        for k in [31u32, 32, 52, 53, 54, 62, 63] {
            for d in -2i128..=2 {
                let x = (1i128 << k) + d;
                if let Ok(i) = i64::try_from(x) {
                    g.push(V::Int(i));
                    g.push(V::Int(-i));
                }
                if let Ok(u) = u64::try_from(x) {
                    g.push(V::UInt(u));
                }
                g.push(V::Dbl(x as f64));
            }
        }
    }
    for s in ["", "a", "A", "ab", "b", "é", "z", "aa"] {
        g.push(V::s(s));
    }
    for b in [vec![], vec![0u8], vec![97], vec![255], vec![97, 0]] {
        g.push(V::Bytes(b));
    }
    g.push(V::Bool(true));
    g.push(V::Bool(false));
    g.push(V::Null);
    g.push(V::Type("int".into()));
    g.push(V::Type("string".into()));
    for s in [-1i128, 0, 1, 1_700_000_000, 253_402_300_799] {
        g.push(V::Ts(s * NS));
    }
    g.push(V::Ts(1_700_000_000 * NS + 1));
    for d in [-90i128 * NS, -1, 0, 1, 90 * NS, 86_400 * NS] {
        g.push(V::Dur(d));
    }
    let atoms = [V::Int(1), V::UInt(1), V::s("a")];
    g.push(V::List(vec![]));
    for a in &atoms {
        g.push(V::List(vec![a.clone()]));
    }
    g.push(V::list(&[V::Int(1), V::Int(2)]));
    g.push(V::list(&[V::Int(2), V::Int(1)]));
    g.push(V::list(&[V::list(&[V::Int(1)])]));
    g.push(V::list(&[V::Dbl(f64::NAN)]));
    g.push(V::map(&[]));
    g.push(V::map(&[("k", V::Int(1))]));
    g.push(V::map(&[("k", V::UInt(1))]));
    g.push(V::map(&[("k", V::Int(2))]));
    g.push(V::map(&[("j", V::Int(1))]));
    g.push(V::map(&[("k", V::Int(1)), ("j", V::Int(1))]));
    g.push(V::map(&[("k", V::map(&[("k", V::Int(1))]))]));
    // dedup bit-identical values
    let mut out: Vec<V> = Vec::new();
    for v in g {
        if !out.iter().any(|w| w.same(&v)) {
            out.push(v);
        }
    }
    out
}

fn bool_of(o: &Outcome) -> Option<bool> {
    match o.value() {
        Some(V::Bool(b)) => Some(b),
        _ => None,
    }
}

pub struct Pairs {
    grid: Vec<V>,
    /// observed `<` per ordered pair: 0 unknown, 1 false, 2 true, 3 fail
    lt: Vec<AtomicU8>,
    /// observed `==`
    eq: Vec<AtomicU8>,
}

impl Pairs {
    pub fn new(t: Tier) -> Pairs {
        let grid = grid(t);
        let n = grid.len();
        let mut lt = Vec::new();
        lt.resize_with(n * n, || AtomicU8::new(0));
        let mut eq = Vec::new();
        eq.resize_with(n * n, || AtomicU8::new(0));
        Pairs { grid, lt, eq }
    }
    pub fn size(&self) -> u64 {
        (self.grid.len() * self.grid.len()) as u64
    }

    pub fn run(&self, idx: u64, acc: &mut Acc) {
        let n = self.grid.len() as u64;
        let (ia, ib) = (idx / n, idx % n);
        let a = &self.grid[ia as usize];
        let b = &self.grid[ib as usize];
        let tkey = format!("{}x{}", a.type_name(), b.type_name());
        let binds = vec![("a", a.clone()), ("b", b.clone())];
        let case = |rel: &str, form: &str| json!({"expr": format!("a {} b", rel), "a": a.show(), "b": b.show(), "form": form});
        // bound form: results of the six relations
        let mut res: Vec<Outcome> = Vec::new();
        for rel in RELS {
            let got = real::eval(&format!("a {} b", rel), &binds);
            acc.eval();
            acc.class(&got.class());
            if got.is_panic() || got.is_compile_fail() {
                acc.violation(&format!("{} {} panic-or-compile-error", rel, tkey), case(rel, "bound"), "a value or an error".into(), got.show());
            }
            res.push(got);
        }
        // literal form must agree with the bound form
        if let (Some(la), Some(lb)) = (a.lit(), b.lit()) {
            for (i, rel) in RELS.iter().enumerate() {
                let got = real::eval(&format!("{} {} {}", la, rel, lb), &[]);
                acc.eval();
                if !got.agrees_class(&res[i]) {
                    acc.violation(&format!("{} {} literal-vs-bound-differ", rel, tkey), case(rel, "literal"), res[i].show(), got.show());
                }
            }
        }
        let eqv = bool_of(&res[0]);
        let nev = bool_of(&res[1]);
        self.eq[idx as usize].store(match (&res[0], eqv) { (_, Some(true)) => 2, (_, Some(false)) => 1, _ => 3 }, AO::Relaxed);
        self.lt[idx as usize].store(match bool_of(&res[2]) { Some(true) => 2, Some(false) => 1, None => 3 }, AO::Relaxed);

        // == and != are complementary
        match (eqv, nev) {
            (Some(x), Some(y)) => {
                if x == y {
                    acc.violation(&format!("eq-ne-not-complementary {}", tkey), case("== / !=", "bound"), "a != b is the negation of a == b".into(), format!("== gives {}, != gives {}", x, y));
                }
            }
            (None, None) if res[0].is_fail() && res[1].is_fail() => {}
            _ => {
                acc.violation(&format!("eq-ne-not-complementary {}", tkey), case("== / !=", "bound"), "== and != both give a bool or both fail".into(), format!("== gives {}, != gives {}", res[0].show(), res[1].show()));
            }
        }
        // reflexive without NaN
        if ia == ib && !contains_nan(a) && eqv != Some(true) {
            acc.violation(&format!("eq-not-reflexive {}", a.type_name()), case("==", "bound"), "true".into(), res[0].show());
        }
        // value fixed by the property
        if let Some(want) = refmodel::eq(a, b) {
            acc.nontrivial(&("eq", idx));
            if eqv != Some(want) {
                acc.violation(&format!("eq-wrong {}", tkey), case("==", "bound"), format!("{}", want), res[0].show());
            }
        }
        // one order
        let (lt, le, gt, ge) = (&res[2], &res[3], &res[4], &res[5]);
        let c = refmodel::cmp(a, b);
        let want: Option<[bool; 4]> = match c {
            CmpRes::Ord(o) => Some([o == Ordering::Less, o != Ordering::Greater, o == Ordering::Greater, o != Ordering::Less]),
            CmpRes::Unordered => Some([false, false, false, false]),
            _ => None,
        };
        match c {
            CmpRes::Ord(_) | CmpRes::Unordered => {
                acc.nontrivial(&("ord", idx));
                let w = want.unwrap();
                for (i, (rel, got)) in [("<", lt), ("<=", le), (">", gt), (">=", ge)].iter().enumerate() {
                    if bool_of(got) != Some(w[i]) {
                        acc.violation(&format!("order-wrong {} {}", rel, tkey), case(rel, "bound"), format!("{}", w[i]), got.show());
                    }
                }
                // exactly one of < == > on NaN-free comparable pairs
                if let CmpRes::Ord(_) = c {
                    let cnt = [bool_of(lt), eqv, bool_of(gt)].iter().filter(|x| **x == Some(true)).count();
                    if cnt != 1 {
                        acc.violation(&format!("trichotomy {}", tkey), case("< == >", "bound"), "exactly one of a<b, a==b, a>b".into(), format!("<:{} ==:{} >:{}", lt.show(), res[0].show(), gt.show()));
                    }
                }
            }
            CmpRes::Incomparable => {
                acc.nontrivial(&("incomparable", idx));
                for (rel, got) in [("<", lt), ("<=", le), (">", gt), (">=", ge)] {
                    if !got.is_fail() {
                        acc.violation(&format!("unrelated-types-compare {} {}", rel, tkey), case(rel, "bound"), "Fail (comparing unrelated types is an error)".into(), got.show());
                    }
                }
            }
            CmpRes::Unspec => {}
        }
        if acc.wants_sample() {
            acc.sample(json!({"a": a.show(), "b": b.show(), "==": res[0].show(), "<": res[2].show(), "reference_order": format!("{:?}", c)}));
        }
    }

    /// laws over the observed matrices: symmetry of ==, transitivity of < and ==
    pub fn matrix_laws(&self, acc: &mut Acc) {
        let n = self.grid.len();
        let g = |m: &Vec<AtomicU8>, i: usize, j: usize| m[i * n + j].load(AO::Relaxed);
        acc.family = "matrix".into();
        for i in 0..n {
            for j in 0..n {
                if g(&self.eq, i, j) != g(&self.eq, j, i) {
                    acc.index = (i * n + j) as u64;
                    acc.violation(
                        &format!("eq-not-symmetric {}x{}", self.grid[i].type_name(), self.grid[j].type_name()),
                        json!({"a": self.grid[i].show(), "b": self.grid[j].show()}),
                        "a == b and b == a agree".into(),
                        format!("{} vs {}", g(&self.eq, i, j), g(&self.eq, j, i)),
                    );
                }
            }
        }
        let mut triples = 0u64;
        for i in 0..n {
            for j in 0..n {
                if g(&self.lt, i, j) != 2 {
                    continue;
                }
                for k in 0..n {
                    if g(&self.lt, j, k) == 2 {
                        triples += 1;
                        if g(&self.lt, i, k) != 2 {
                            acc.index = ((i * n + j) * n + k) as u64;
                            acc.violation(
                                &format!("lt-not-transitive {}x{}x{}", self.grid[i].type_name(), self.grid[j].type_name(), self.grid[k].type_name()),
                                json!({"a": self.grid[i].show(), "b": self.grid[j].show(), "c": self.grid[k].show()}),
                                "a<b and b<c imply a<c".into(),
                                format!("a<c observed as {}", g(&self.lt, i, k)),
                            );
                        }
                    }
                }
            }
        }
        acc.count("ordered_triples_checked_for_transitivity", triples);
        acc.count("all_triples_scanned", (n * n * n) as u64);
    }
}

// ---------------------------------------------------------------------------
// sort / min / max

pub fn alphabets() -> Vec<(&'static str, Vec<V>)> {
    vec![
        ("int+uint", vec![V::Int(-1), V::Int(0), V::UInt(1 << 63), V::UInt(1), V::Int(i64::MAX)]),
        ("double", vec![V::Dbl(-0.0), V::Dbl(0.0), V::Dbl(1.5), V::Dbl(f64::NEG_INFINITY), V::Dbl(9007199254740992.0)]),
        ("numeric-mixed", vec![V::Int(1), V::Dbl(1.0), V::UInt(1), V::Int(-2), V::Dbl(2.5)]),
        ("string", vec![V::s(""), V::s("a"), V::s("A"), V::s("ab"), V::s("é")]),
        ("bytes", vec![V::Bytes(vec![]), V::Bytes(vec![0]), V::Bytes(vec![97]), V::Bytes(vec![255]), V::Bytes(vec![97, 0])]),
        ("bool", vec![V::Bool(false), V::Bool(true)]),
        ("timestamp", vec![V::Ts(-NS), V::Ts(0), V::Ts(1), V::Ts(1_700_000_000 * NS), V::Ts(253_402_300_799 * NS)]),
        ("duration", vec![V::Dur(-90 * NS), V::Dur(-1), V::Dur(0), V::Dur(1), V::Dur(86_400 * NS)]),
    ]
}

fn ref_le(a: &V, b: &V) -> bool {
    matches!(refmodel::cmp(a, b), CmpRes::Ord(Ordering::Less | Ordering::Equal))
}
fn ref_lt(a: &V, b: &V) -> bool {
    matches!(refmodel::cmp(a, b), CmpRes::Ord(Ordering::Less))
}

/// number of tuples of length lo..=hi over k symbols and decoding
fn tuples_count(k: u64, lo: u32, hi: u32) -> u64 {
    (lo..=hi).map(|l| k.pow(l)).sum()
}
fn tuple_at(mut idx: u64, k: u64, lo: u32, hi: u32) -> Vec<usize> {
    for l in lo..=hi {
        let c = k.pow(l);
        if idx < c {
            let mut out = vec![0usize; l as usize];
            for p in (0..l as usize).rev() {
                out[p] = (idx % k) as usize;
                idx /= k;
            }
            return out;
        }
        idx -= c;
    }
    unreachable!()
}

pub struct Lists {
    alph: Vec<(&'static str, Vec<V>)>,
    maxlen: u32,
    offsets: Vec<u64>,
}
impl Lists {
    pub fn new(maxlen: u32) -> Lists {
        let alph = alphabets();
        let mut offsets = vec![0u64];
        for (_, a) in &alph {
            let last = *offsets.last().unwrap();
            offsets.push(last + tuples_count(a.len() as u64, 0, maxlen));
        }
        Lists { alph, maxlen, offsets }
    }
    pub fn size(&self) -> u64 {
        *self.offsets.last().unwrap()
    }
    fn decode(&self, idx: u64) -> (&'static str, Vec<V>) {
        let f = self.offsets.iter().rposition(|o| *o <= idx).unwrap().min(self.alph.len() - 1);
        let (name, a) = &self.alph[f];
        let t = tuple_at(idx - self.offsets[f], a.len() as u64, 0, self.maxlen);
        (name, t.iter().map(|i| a[*i].clone()).collect())
    }
    pub fn run_sort(&self, idx: u64, acc: &mut Acc) {
        let (fam, items) = self.decode(idx);
        let l = V::List(items.clone());
        let mut outs = vec![("bound", real::eval("l.sort()", &[("l", l.clone())]))];
        if let Some(lit) = l.lit() {
            outs.push(("literal", real::eval(&format!("{}.sort()", lit), &[])));
        }
        for (form, got) in outs {
            acc.eval();
            acc.class(&got.class());
            let case = json!({"expr": "l.sort()", "l": l.show(), "form": form, "family": fam});
            match got.value() {
                Some(V::List(out)) => {
                    // permutation: multiset equality by bit identity
                    let mut pool: Vec<Option<&V>> = items.iter().map(Some).collect();
                    let mut perm = out.len() == items.len();
                    for o in &out {
                        match pool.iter().position(|p| p.map(|p| p.same(o)).unwrap_or(false)) {
                            Some(i) => pool[i] = None,
                            None => perm = false,
                        }
                    }
                    if !perm {
                        acc.violation(&format!("sort-not-permutation {}", fam), case, "a permutation of the input".into(), got.show());
                    } else if !out.windows(2).all(|w| ref_le(&w[0], &w[1])) {
                        acc.violation(&format!("sort-not-ordered {}", fam), case, "adjacent elements in non-decreasing order".into(), got.show());
                    }
                }
                _ => acc.violation(&format!("sort-failed {}", fam), case, "a sorted list".into(), got.show()),
            }
        }
        if items.len() >= 2 {
            acc.nontrivial(&("sort", idx));
        }
        if acc.wants_sample() {
            acc.sample(json!({"expr": "l.sort()", "l": l.show()}));
        }
    }
}

pub struct MinMax {
    alph: Vec<(&'static str, Vec<V>)>,
    maxlen: u32,
    offsets: Vec<u64>,
}
impl MinMax {
    pub fn new(maxlen: u32) -> MinMax {
        let alph = alphabets();
        let mut offsets = vec![0u64];
        for (_, a) in &alph {
            let last = *offsets.last().unwrap();
            offsets.push(last + tuples_count(a.len() as u64, 1, maxlen));
        }
        MinMax { alph, maxlen, offsets }
    }
    pub fn size(&self) -> u64 {
        *self.offsets.last().unwrap()
    }
    pub fn run(&self, idx: u64, acc: &mut Acc) {
        let f = self.offsets.iter().rposition(|o| *o <= idx).unwrap().min(self.alph.len() - 1);
        let (fam, a) = &self.alph[f];
        let t = tuple_at(idx - self.offsets[f], a.len() as u64, 1, self.maxlen);
        let items: Vec<V> = t.iter().map(|i| a[*i].clone()).collect();
        let names = ["p", "q", "r", "s", "t", "u"];
        let binds: Vec<(&str, V)> = items.iter().enumerate().map(|(i, v)| (names[i], v.clone())).collect();
        let args = names[..items.len()].join(", ");
        // first least / first greatest under the reference order
        let mut mn = 0;
        let mut mx = 0;
        for i in 1..items.len() {
            if ref_lt(&items[i], &items[mn]) {
                mn = i;
            }
            if ref_lt(&items[mx], &items[i]) {
                mx = i;
            }
        }
        for (f, want) in [("min", &items[mn]), ("max", &items[mx])] {
            let src = format!("{}({})", f, args);
            let mut outs = vec![("bound", real::eval(&src, &binds))];
            if items.iter().all(|v| v.lit().is_some()) {
                let lits: Vec<String> = items.iter().map(|v| v.lit().unwrap()).collect();
                outs.push(("literal", real::eval(&format!("{}({})", f, lits.join(", ")), &[])));
            }
            for (form, got) in outs {
                acc.eval();
                acc.class(&got.class());
                let ok = got.value().map(|g| g.same(want)).unwrap_or(false);
                if !ok {
                    acc.violation(
                        &format!("{}-wrong {}", f, fam),
                        json!({"expr": src, "args": items.iter().map(|v| v.show()).collect::<Vec<_>>(), "form": form}),
                        format!("the first {} argument: {}", if f == "min" { "least" } else { "greatest" }, want.show()),
                        got.show(),
                    );
                }
            }
        }
        if items.len() >= 2 {
            acc.nontrivial(&("minmax", idx));
        }
        if acc.wants_sample() {
            acc.sample(json!({"expr": format!("min({0}) / max({0})", args), "args": items.iter().map(|v| v.show()).collect::<Vec<_>>()}));
        }
    }
}

fn sizes(t: Tier) -> (u32, u32) {
    (t.pick(4, 8), t.pick(4, 6))
}

pub fn replay_families(t: Tier) -> Vec<Family<'static>> {
    let p: &'static Pairs = Box::leak(Box::new(Pairs::new(t)));
    let (sl, ml) = sizes(t);
    let l: &'static Lists = Box::leak(Box::new(Lists::new(sl)));
    let m: &'static MinMax = Box::leak(Box::new(MinMax::new(ml)));
    vec![
        Family::new("pairs", p.size(), move |i, a| p.run(i, a)),
        Family::new("sort", l.size(), move |i, a| l.run_sort(i, a)),
        Family::new("minmax", m.size(), move |i, a| m.run(i, a)),
    ]
}

pub fn run(t: Tier) -> i32 {
    let mut rep = Report::new(ID, t, "exploration");
    rep.rule = "pairs: every ordered pair of the value grid (numeric boundary grid of C03 with all cross-type pairs, strings, bytes, bools, null, types, timestamps, durations, nested lists and maps) under == != < <= > >= in bound and literal form, judged against the laws (complement, reflexivity, symmetry, trichotomy, unions, error on unrelated types) and against one reference order; transitivity scanned over all triples of the observed < matrix; sort: all lists up to the length bound with duplicates over 8 five-element alphabets (ordered permutation); min/max: all argument tuples (first least/greatest). Non-trivial = the property fixes the outcome; distinct by case index".to_string();
    let p = Pairs::new(t);
    rep.run_family(Family::new("pairs", p.size(), |i, a| p.run(i, a)));
    let mut acc = Acc::default();
    p.matrix_laws(&mut acc);
    rep.acc.merge(acc);
    let (sl, ml) = sizes(t);
    let l = Lists::new(sl);
    rep.run_family(Family::new("sort", l.size(), |i, a| l.run_sort(i, a)));
    let m = MinMax::new(ml);
    rep.run_family(Family::new("minmax", m.size(), |i, a| m.run(i, a)));
    rep.set("grid_size", json!(p.grid.len()));
    rep.set("sort_max_len", json!(sl));
    rep.set("minmax_max_args", json!(ml));
    rep.assumptions = vec![
        "== between unrelated types is only required to be symmetric and the complement of != (false vs error not fixed)".into(),
        "bool against a number under < <= > >= is not fixed by the property (totality only)".into(),
        "sort/min/max over arguments that are not mutually comparable are outside the property".into(),
    ];
    rep.finish()
}
