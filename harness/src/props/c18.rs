//! C18 — syntax-tree spans are exact and nested; tokens have increasing, exact spans; syntax
//! errors point inside the source.
use crate::astcanon::{self, S};
use crate::engine::*;
use crate::real::{self, Outcome};
use rscel::*;
use serde_json::json;

pub const ID: &str = "C18";

// ---------------------------------------------------------------------------
// positions

struct Src {
    lines: Vec<Vec<char>>,
}
impl Src {
    fn new(s: &str) -> Src {
        Src { lines: s.split('\n').map(|l| l.chars().collect()).collect() }
    }
    /// absolute character offset of (line, col); None when outside the source
    /// (col == line length is the position at the end of the line)
    fn offset(&self, l: SourceLocation) -> Option<usize> {
        if l.line() >= self.lines.len() || l.col() > self.lines[l.line()].len() {
            return None;
        }
        Some(self.lines[..l.line()].iter().map(|x| x.len() + 1).sum::<usize>() + l.col())
    }
    fn text(&self) -> Vec<char> {
        let mut out = Vec::new();
        for (i, l) in self.lines.iter().enumerate() {
            if i > 0 {
                out.push('\n');
            }
            out.extend(l);
        }
        out
    }
}

struct N {
    kind: &'static str,
    range: SourceRange,
    s: S,
    kids: Vec<N>,
}

fn n_expr(e: &AstNode<Expr>) -> N {
    let kids = match e.node() {
        Expr::Unary(or) => vec![n_or(or)],
        Expr::Ternary { condition, true_clause, false_clause } => vec![n_or(condition), n_or(true_clause), n_expr(false_clause)],
        Expr::Match { condition, cases } => {
            let mut k = vec![n_expr(condition)];
            for c in cases {
                // the spans of patterns are not part of the statement; the arm expression is
                k.push(n_expr(&c.node().expr));
            }
            k
        }
    };
    N { kind: "expr", range: e.range(), s: astcanon::expr(e), kids }
}
fn n_or(e: &AstNode<ConditionalOr>) -> N {
    let kids = match e.node() {
        ConditionalOr::Unary(a) => vec![n_and(a)],
        ConditionalOr::Binary { lhs, rhs } => vec![n_or(lhs), n_and(rhs)],
    };
    N { kind: "or", range: e.range(), s: astcanon::cond_or(e), kids }
}
fn n_and(e: &AstNode<ConditionalAnd>) -> N {
    let kids = match e.node() {
        ConditionalAnd::Unary(a) => vec![n_rel(a)],
        ConditionalAnd::Binary { lhs, rhs } => vec![n_and(lhs), n_rel(rhs)],
    };
    N { kind: "and", range: e.range(), s: astcanon::cond_and(e), kids }
}
fn n_rel(e: &AstNode<Relation>) -> N {
    let kids = match e.node() {
        Relation::Unary(a) => vec![n_add(a)],
        Relation::Binary { lhs, rhs, .. } => vec![n_rel(lhs), n_add(rhs)],
    };
    N { kind: "relation", range: e.range(), s: astcanon::relation(e), kids }
}
fn n_add(e: &AstNode<Addition>) -> N {
    let kids = match e.node() {
        Addition::Unary(a) => vec![n_mul(a)],
        Addition::Binary { lhs, rhs, .. } => vec![n_add(lhs), n_mul(rhs)],
    };
    N { kind: "addition", range: e.range(), s: astcanon::addition(e), kids }
}
fn n_mul(e: &AstNode<Multiplication>) -> N {
    let kids = match e.node() {
        Multiplication::Unary(a) => vec![n_unary(a)],
        Multiplication::Binary { lhs, rhs, .. } => vec![n_mul(lhs), n_unary(rhs)],
    };
    N { kind: "multiplication", range: e.range(), s: astcanon::multiplication(e), kids }
}
fn n_unary(e: &AstNode<Unary>) -> N {
    let kids = match e.node() {
        Unary::Member(m) => vec![n_member(m)],
        Unary::NotMember { member, .. } | Unary::NegMember { member, .. } => vec![n_member(member)],
    };
    N { kind: "unary", range: e.range(), s: astcanon::unary(e), kids }
}
fn n_member(e: &AstNode<Member>) -> N {
    let mut kids = vec![n_primary(&e.node().primary)];
    for mp in &e.node().member {
        match mp.node() {
            MemberPrime::Call { call } => kids.extend(call.node().exprs.iter().map(n_expr)),
            MemberPrime::ArrayAccess { access } => kids.push(n_expr(access)),
            _ => {}
        }
    }
    N { kind: "member", range: e.range(), s: astcanon::member(e), kids }
}
fn n_primary(e: &AstNode<Primary>) -> N {
    let kids = match e.node() {
        Primary::Parens(inner) => vec![n_expr(inner)],
        Primary::ListConstruction(l) => l.node().exprs.iter().map(n_expr).collect(),
        Primary::ObjectInit(o) => o.node().inits.iter().flat_map(|i| vec![n_expr(&i.node().key), n_expr(&i.node().value)]).collect(),
        _ => vec![],
    };
    N { kind: "primary", range: e.range(), s: astcanon::primary(e), kids }
}

// ---------------------------------------------------------------------------
// sources

const WS: [&str; 6] = ["", " ", "  ", "\n", "\t", " \n\t "];
const PAD: [(&str, &str); 4] = [("", ""), (" ", " "), ("\n ", "\t\n"), ("", "\n")];

fn wordlike(t: &str) -> bool {
    t.chars().all(|c| c.is_alphanumeric() || c == '_') || t.starts_with('\'')
}

fn join(tokens: &[String], ws: &str) -> String {
    let mut out = String::new();
    for (i, t) in tokens.iter().enumerate() {
        if i > 0 {
            if ws.is_empty() {
                let a = &tokens[i - 1];
                if (wordlike(a) && wordlike(t)) || (a == "-" && t == "-") || (a == "!" && t == "=") {
                    out.push(' ');
                }
            } else {
                out.push_str(ws);
            }
        }
        out.push_str(t);
    }
    out
}

fn structural() -> Vec<Vec<String>> {
    let raw = [
        "[ a , 'é😀' , c ]",
        "[ ]",
        "[ [ a ] , [ ] ]",
        "{ 'é' : a , 'k' : [ b ] }",
        "{ }",
        "f ( a , 'ü' , c )",
        "a . f ( b , c ) . g ( d )",
        "a . b . c",
        "a [ b ] [ c ]",
        "a . f ( b ) [ c ] . d",
        "a ? b : c ? d : e",
        "( a ? b : c ) ? d : e",
        "a ? ( b ? c : d ) : e",
        "[ a ? b : c , d || e ]",
        "f ( a + b , c * d )",
        "! a . f ( b )",
        "- a [ b ]",
        "'é😀' + a + 'ü'",
        "a + ( b * ( c - d ) )",
        "( ( a ) )",
        "match a { case 1 : b , case _ : c + d }",
        "match a + b { case > 1 : [ c ] , case int : d . e }",
        "[ 1 ] . map ( x , x + a )",
        "a . filter ( x , x > 'é' ) . size ( )",
        "has ( a . b ) && coalesce ( c , d )",
        "a in [ b , c ] || d in { 'k' : e }",
        "1.5 + 2u * 0x1F - 3",
        "b'ab' + b\"c\"",
        "f'x{a}' + r'\\n'",
        "true && false || null == a",
        // the minus that belongs to the literal, alone and inside larger expressions
        "-9223372036854775808",
        "- 9223372036854775808 + a",
        "a - -9223372036854775808",
        "[ -9223372036854775808 , - 1 ]",
        "( -9223372036854775808 ) * a",
        "a ? -9223372036854775808 : - b",
        "- - 5 + - a",
        // matches without cases, without arms worth mentioning, and nested
        "match a { }",
        "( match a { } )",
        "a ? b : match c { }",
        "[ match a { } , b ]",
        "match a { case _ : match b { } }",
        "match a { case 1 : b , }",
        "f ( match a { } ) + c",
        // raw and byte strings next to other operands
        "r'é' + a",
        "a + r\"x\" + b'\\x41'",
    ];
    raw.iter().map(|s| s.split(' ').map(|x| x.to_string()).collect()).collect()
}

pub struct Space {
    c02: crate::props::c02::Space,
    nseq: u64,
    structural: Vec<Vec<String>>,
}

const OPERANDS: [&str; 5] = ["a", "'é😀'", "c", "'ü'", "e"];

impl Space {
    pub fn new(t: Tier) -> Space {
        let c02 = crate::props::c02::Space::new(Tier::Quick);
        let nseq = c02.bound_for_k(t.pick(1, 2));
        Space { c02, nseq, structural: structural() }
    }
    fn tokens(&self, i: u64) -> Vec<String> {
        if i < self.nseq {
            let (mut toks, _) = self.c02.tokens_of(i);
            // operands: some become string literals with multi-byte characters (columns count characters)
            for t in toks.iter_mut() {
                if let Some(p) = ["a", "b", "c", "d", "e"].iter().position(|n| n == t) {
                    *t = OPERANDS[p].to_string();
                }
            }
            toks
        } else {
            self.structural[(i - self.nseq) as usize].clone()
        }
    }
    fn n_sources(&self) -> u64 {
        self.nseq + self.structural.len() as u64
    }
    fn span_size(&self) -> u64 {
        self.n_sources() * (WS.len() * PAD.len()) as u64
    }

    fn run_spans(&self, idx: u64, acc: &mut Acc) {
        let d = unrank(idx, &[self.n_sources(), WS.len() as u64, PAD.len() as u64]);
        let toks = self.tokens(d[0]);
        let ws = WS[d[1] as usize];
        let (pre, post) = PAD[d[2] as usize];
        let body = join(&toks, ws);
        let src = format!("{}{}{}", pre, body, post);
        let prog = match real::compile(&src) {
            Ok(p) => p,
            Err(o) => {
                acc.eval();
                acc.class(&o.class());
                if o.is_panic() {
                    acc.violation("compile panic", json!({"src": src}), "a program or a syntax error".into(), o.show());
                }
                return; // not an expression (the grammar rejects the sequence): the error part covers it
            }
        };
        acc.eval();
        acc.class("compiled");
        acc.nontrivial(&src);
        let s = Src::new(&src);
        let text = s.text();
        let ast = prog.ast().expect("ast");
        let root = n_expr(ast);
        let wsn = match d[1] {
            0 => "no-blanks",
            3 | 5 => "newlines",
            _ => "blanks",
        };
        // root = the source without surrounding whitespace
        let lead = text.iter().take_while(|c| c.is_whitespace()).count();
        let trail = text.iter().rev().take_while(|c| c.is_whitespace()).count();
        let case = |extra: serde_json::Value| json!({"src": src, "detail": extra});
        match (s.offset(root.range.start()), s.offset(root.range.end())) {
            (Some(a), Some(b)) => {
                if a != lead || b != text.len() - trail {
                    acc.violation(
                        &format!("root-span-is-not-the-trimmed-source [{}]", wsn),
                        case(json!({"root_span": format!("{:?}", root.range)})),
                        format!("characters {}..{}", lead, text.len() - trail),
                        format!("characters {}..{}", a, b),
                    );
                }
            }
            _ => acc.violation(&format!("root-span-outside-the-source [{}]", wsn), case(json!(format!("{:?}", root.range))), "inside the source".into(), format!("{:?}", root.range)),
        }
        let mut nodes = 0u64;
        self.walk(&root, None, &s, &text, &src, wsn, acc, &mut nodes);
        acc.count("tree nodes checked", nodes);
        // tokens
        self.check_tokens(&src, &s, &text, wsn, acc);
        if acc.wants_sample() {
            acc.sample(json!({"src": src, "root_span": format!("{:?}", root.range), "nodes": nodes}));
        }
    }

    #[allow(clippy::too_many_arguments)]
    fn walk(&self, n: &N, parent: Option<(usize, usize)>, s: &Src, text: &[char], src: &str, wsn: &str, acc: &mut Acc, count: &mut u64) {
        *count += 1;
        let (a, b) = match (s.offset(n.range.start()), s.offset(n.range.end())) {
            (Some(a), Some(b)) if a <= b => (a, b),
            _ => {
                acc.violation(
                    &format!("{}-span-outside-the-source [{}]", n.kind, wsn),
                    json!({"src": src, "node": n.s.show(), "span": format!("{:?}", n.range)}),
                    "start <= end, both inside the source".into(),
                    format!("{:?}", n.range),
                );
                return;
            }
        };
        if let Some((pa, pb)) = parent {
            if a < pa || b > pb {
                acc.violation(
                    &format!("{}-span-not-inside-its-parent [{}]", n.kind, wsn),
                    json!({"src": src, "node": n.s.show(), "span": format!("{:?}", n.range)}),
                    format!("within characters {}..{}", pa, pb),
                    format!("characters {}..{}", a, b),
                );
            }
        }
        // the spanned text, compiled on its own, is the same subtree
        let piece: String = text[a..b].iter().collect();
        match real::compile(&piece) {
            Ok(p) => {
                let got = p.ast().map(astcanon::expr);
                if got.as_ref() != Some(&n.s) {
                    acc.violation(
                        &format!("{}-span-text-is-a-different-expression [{}]", n.kind, wsn),
                        json!({"src": src, "span": format!("{:?}", n.range), "spanned_text": piece}),
                        n.s.show(),
                        got.map(|g| g.show()).unwrap_or_default(),
                    );
                }
            }
            Err(o) => acc.violation(
                &format!("{}-span-text-does-not-compile [{}]", n.kind, wsn),
                json!({"src": src, "span": format!("{:?}", n.range), "spanned_text": piece}),
                n.s.show(),
                o.show(),
            ),
        }
        // siblings are disjoint
        let mut ks: Vec<(usize, usize, &N)> = Vec::new();
        for k in &n.kids {
            if let (Some(x), Some(y)) = (s.offset(k.range.start()), s.offset(k.range.end())) {
                ks.push((x, y, k));
            }
        }
        ks.sort_by_key(|k| (k.0, k.1));
        for w in ks.windows(2) {
            if w[0].1 > w[1].0 {
                acc.violation(
                    &format!("sibling-spans-overlap under {} [{}]", n.kind, wsn),
                    json!({"src": src, "first": w[0].2.s.show(), "second": w[1].2.s.show()}),
                    "disjoint".into(),
                    format!("{}..{} and {}..{}", w[0].0, w[0].1, w[1].0, w[1].1),
                );
            }
        }
        for k in &n.kids {
            self.walk(k, Some((a, b)), s, text, src, wsn, acc, count);
        }
    }

    fn check_tokens(&self, src: &str, s: &Src, text: &[char], wsn: &str, acc: &mut Acc) {
        let toks = match real::guarded("tokenize", || {
            let mut t = StringTokenizer::with_input(src);
            let mut v = Vec::new();
            loop {
                match t.next() {
                    Ok(Some(tok)) => v.push(tok),
                    Ok(None) => break,
                    Err(_) => break,
                }
                if v.len() > 10_000 {
                    break;
                }
            }
            v
        }) {
            Ok(v) => v,
            Err(o) => {
                acc.violation("tokenizer panic", json!({"src": src}), "tokens".into(), o.show());
                return;
            }
        };
        let mut prev_end = 0usize;
        for tok in &toks {
            let (a, b) = match (s.offset(tok.loc.start()), s.offset(tok.loc.end())) {
                (Some(a), Some(b)) if a < b => (a, b),
                _ => {
                    acc.violation(&format!("token-span-outside-the-source [{}]", wsn), json!({"src": src, "token": format!("{:?}", tok)}), "a non-empty span inside the source".into(), format!("{:?}", tok.loc));
                    continue;
                }
            };
            if a < prev_end {
                acc.violation(&format!("token-spans-overlap-or-decrease [{}]", wsn), json!({"src": src, "token": format!("{:?}", tok)}), format!("starts at or after {}", prev_end), format!("{}..{}", a, b));
            }
            prev_end = b;
            let piece: String = text[a..b].iter().collect();
            let mut t2 = StringTokenizer::with_input(&piece);
            let first = t2.next();
            let second = t2.next();
            let same = matches!((&first, &second), (Ok(Some(f)), Ok(None)) if f.token == tok.token);
            if !same {
                acc.violation(
                    &format!("token-span-text-relexes-differently [{}]", wsn),
                    json!({"src": src, "token": format!("{:?}", tok.token), "spanned_text": piece}),
                    format!("the single token {:?}", tok.token),
                    format!("{:?} then {:?}", first.map(|x| x.map(|y| y.token)), second.map(|x| x.map(|y| y.token))),
                );
            }
            acc.evals(1);
        }
    }

    // -- syntax-error locations over every single-token edit ---------------------------------
    fn edit_size(&self) -> u64 {
        self.n_sources() * 3
    }
    fn run_edits(&self, idx: u64, acc: &mut Acc) {
        const REPL: [&str; 12] = ["(", ")", "[", "]", "+", "?", ":", ",", ".", "1", "'", "in"];
        let toks = self.tokens(idx / 3);
        let ws = ["", " ", "\n"][(idx % 3) as usize];
        let mut variants: Vec<Vec<String>> = Vec::new();
        for i in 0..toks.len() {
            let mut v = toks.clone();
            v.remove(i);
            variants.push(v);
            let mut v = toks.clone();
            v.insert(i, toks[i].clone());
            variants.push(v);
            for r in REPL {
                let mut v = toks.clone();
                v[i] = r.to_string();
                variants.push(v);
            }
        }
        // truncations
        for i in 0..toks.len() {
            variants.push(toks[..i].to_vec());
        }
        for v in variants {
            let src = join(&v, ws);
            let got = real::eval(&src, &[]);
            acc.eval();
            match &got {
                Outcome::CompileFail { line, col, .. } => {
                    acc.class("syntax-error");
                    acc.nontrivial(&src);
                    let s = Src::new(&src);
                    let ok = *line < s.lines.len() && *col <= s.lines[*line].len();
                    if !ok {
                        acc.violation(
                            &format!("syntax-error-location-outside-the-source [{}]", if ws == "\n" { "multi-line" } else { "single-line" }),
                            json!({"src": src}),
                            format!("line < {} and column <= the length of that line", s.lines.len()),
                            format!("line {}, column {} ({})", line, col, got.show()),
                        );
                    }
                }
                Outcome::Panic { .. } => acc.violation("compile panic on an edited source", json!({"src": src}), "a syntax error".into(), got.show()),
                _ => acc.class("still-valid"),
            }
        }
        if acc.wants_sample() {
            acc.sample(json!({"tokens": toks.join(" "), "edits": "delete / duplicate / replace each token by each of 12 tokens / truncate"}));
        }
    }
}

// -- syntax-error locations over every single-character edit of literal-rich sources -------------

/// sources whose tokens have an inner structure of their own (escapes of every kind, prefixes,
/// exponents, f-string holes): a token-level edit never cuts through them
const LITERAL_SOURCES: [&str; 22] = [
    r#"'\x41'"#,
    r#""Ab""#,
    r#"b'\x41\x42'"#,
    r#"'a\U0001F600'"#,
    r#"'\101'"#,
    r#"'a\nb' + x"#,
    r#"f'a{x}b'"#,
    r#"f"{x + 1}""#,
    r#"r'a\x'"#,
    r#"'''a'b'''"#,
    "0x1F + 1",
    "1.5e3",
    "2e-3 * x",
    "10u",
    "a.b.c",
    "m['k']",
    "[1, 'é']",
    "{'k': 1.0}",
    r#"x ? 'a' : "b""#,
    r#"b"\X4a""#,
    r#"'é' in s"#,
    r#"f'{"\x41"}'"#,
];
const EDIT_CHARS: [char; 14] = ['\n', ' ', '\'', '"', '\\', 'x', 'u', 'g', '4', '{', '}', '(', '.', 'é'];

fn char_edit_size() -> u64 {
    LITERAL_SOURCES.len() as u64
}

fn run_char_edits(idx: u64, acc: &mut Acc) {
    let base: Vec<char> = LITERAL_SOURCES[idx as usize].chars().collect();
    let mut variants: Vec<(String, &'static str)> = Vec::new();
    for i in 0..=base.len() {
        if i < base.len() {
            let mut v = base.clone();
            v.remove(i);
            variants.push((v.iter().collect(), "delete"));
            variants.push((base[..i].iter().collect(), "truncate"));
        }
        for c in EDIT_CHARS {
            let mut v = base.clone();
            v.insert(i, c);
            variants.push((v.iter().collect(), if c == '\n' { "insert-line-break" } else { "insert" }));
            if i < base.len() {
                let mut v = base.clone();
                v[i] = c;
                variants.push((v.iter().collect(), if c == '\n' { "replace-by-line-break" } else { "replace" }));
            }
        }
    }
    // two edits: a line break at one place and any edit character at another
    for i in 0..=base.len() {
        for j in 0..=base.len() {
            for c in EDIT_CHARS {
                let mut v = base.clone();
                v.insert(j, c);
                v.insert(i, '\n');
                variants.push((v.iter().collect(), "insert-line-break-and-insert"));
            }
        }
    }
    for (src, how) in variants {
        let got = real::eval(&src, &[("x", crate::val::V::Int(1))]);
        acc.eval();
        match &got {
            Outcome::CompileFail { line, col, .. } => {
                acc.class("syntax-error");
                acc.nontrivial(&src);
                let s = Src::new(&src);
                let ok = *line < s.lines.len() && *col <= s.lines[*line].len();
                if !ok {
                    acc.violation(
                        &format!("syntax-error-location-outside-the-source [character edit: {}]", how),
                        json!({"src": src, "edited_from": LITERAL_SOURCES[idx as usize]}),
                        format!("line < {} and column <= the length of that line", s.lines.len()),
                        format!("line {}, column {} ({})", line, col, got.show()),
                    );
                }
            }
            Outcome::Panic { .. } => acc.violation(
                &format!("compile panic on an edited source [character edit: {}]", how),
                json!({"src": src, "edited_from": LITERAL_SOURCES[idx as usize]}),
                "a syntax error".into(),
                got.show(),
            ),
            _ => acc.class("still-valid"),
        }
    }
    if acc.wants_sample() {
        acc.sample(json!({"source": LITERAL_SOURCES[idx as usize], "edits": "every deletion, truncation, insertion and replacement of one character by each of 14 characters; plus a line break at every place combined with every insertion"}));
    }
}

pub fn replay_families(t: Tier) -> Vec<Family<'static>> {
    let sp: &'static Space = Box::leak(Box::new(Space::new(t)));
    vec![
        Family::new("spans", sp.span_size(), move |i, a| sp.run_spans(i, a)),
        Family::new("error-locations", sp.edit_size(), move |i, a| sp.run_edits(i, a)),
        Family::new("character-edits", char_edit_size(), run_char_edits),
    ]
}

pub fn run(t: Tier) -> i32 {
    let mut rep = Report::new(ID, t, "exploration");
    let sp = Space::new(t);
    rep.rule = format!(
        "spans: {} token sequences (every flat operator sequence with <= {} operators over 16 symbols, plain and with each of 29 prefix/postfix decorations on one operand, operands partly replaced by string literals with 2- and 4-byte characters; plus 47 structural sources: lists, maps, calls, chains, nested ?:, match arms, macros, literals of every kind) x 6 whitespace policies (none, blank, two blanks, newline, tab, mixed) x 4 paddings (none, blanks, newlines around, trailing newline): every expression node (all grammar levels, call/index/list/map children, match scrutinee and arms; not match patterns) must have a span inside the source, inside its parent, disjoint from its siblings, the root must span the trimmed source, and the spanned text compiled on its own must give the same canonical subtree; every token span must be increasing, non-overlapping and re-lex to the same single token. error-locations: every single-token deletion, duplication, replacement by each of 12 tokens and every truncation of those sequences in 3 layouts: a reported syntax-error location must have line < number of lines and column <= the length of that line. character-edits: 22 sources whose tokens have an inner structure (hex, unicode and octal escapes in strings and bytes, raw and triple-quoted strings, f-string holes, hex/exponent/suffixed numbers) under every deletion, truncation, insertion and replacement of one character by each of 14 characters (line break, blank, quotes, backslash, x, u, g, 4, braces, ...) and every pair (line break at any place, insertion at any place): same oracle, and no panic. Non-trivial = every compiled source / every rejected edit",
        sp.n_sources(),
        t.pick(1, 2)
    );
    rep.run_family(Family::new("spans", sp.span_size(), |i, a| sp.run_spans(i, a)));
    rep.run_family(Family::new("error-locations", sp.edit_size(), |i, a| sp.run_edits(i, a)));
    rep.run_family(Family::new("character-edits", char_edit_size(), run_char_edits));
    rep.assumptions = vec![
        "lines and columns count characters from 0 as the scanner defines them; a column equal to the line length is the position at the end of the line".into(),
        "spans of match patterns and of the auxiliary !/- list nodes are excluded (the statement excludes the former; the latter are not expressions)".into(),
    ];
    rep.finish()
}
