//! C05 — `|| && ?: match` are lazy and absorb failures by fixed rules; one truthiness.
//!
//! Families (all exhaustive):
//!  trees        every tree over {||, &&, ?:, !} with a bounded number of internal nodes and
//!               leaves, every leaf drawn from an atom set (literal/bound truthy and falsy
//!               values, foldable and run-time failures, an unbound name, call-recording
//!               functions), compared with a reference lazy evaluator: outcome AND exact call log
//!  match        every `match` with up to N cases over a pattern set and an arm set, every
//!               scrutinee of a pool (literal and bound)
//!  truthiness   every pool value in every truthiness context, literal and bound
use crate::engine::*;
use crate::real::{self, Outcome};
use crate::refmodel::{self, CmpRes};
use crate::val::{V, NS};
use rscel::{BindContext, CelError, CelValue};
use serde_json::json;
use std::cell::RefCell;

pub const ID: &str = "C05";

thread_local! {
    static LOG: RefCell<Vec<(char, i64)>> = const { RefCell::new(Vec::new()) };
}

fn arg_id(args: &[CelValue]) -> i64 {
    match args.first() {
        Some(CelValue::Int(i)) => *i,
        _ => -1,
    }
}
fn t_impl(_this: CelValue, args: Vec<CelValue>) -> CelValue {
    LOG.with(|l| l.borrow_mut().push(('t', arg_id(&args))));
    CelValue::Bool(true)
}
fn f_impl(_this: CelValue, args: Vec<CelValue>) -> CelValue {
    LOG.with(|l| l.borrow_mut().push(('f', arg_id(&args))));
    CelValue::Bool(false)
}
fn e_impl(_this: CelValue, args: Vec<CelValue>) -> CelValue {
    LOG.with(|l| l.borrow_mut().push(('e', arg_id(&args))));
    CelValue::from_err(CelError::value("boom"))
}
/// returns its second argument, records its first
fn v_impl(_this: CelValue, args: Vec<CelValue>) -> CelValue {
    LOG.with(|l| l.borrow_mut().push(('v', arg_id(&args))));
    args.get(1).cloned().unwrap_or(CelValue::Null)
}

fn take_log() -> Vec<(char, i64)> {
    LOG.with(|l| std::mem::take(&mut *l.borrow_mut()))
}

thread_local! {
    static BASE: BindContext<'static> = base_bindings();
}

fn base_bindings<'a>() -> BindContext<'a> {
    let mut b = BindContext::new();
    b.bind_param("vt", CelValue::Bool(true));
    b.bind_param("vf", CelValue::Bool(false));
    b.bind_param("z", CelValue::Int(1));
    b.bind_param("n1", CelValue::Int(1));
    b.bind_param("n0", CelValue::Int(0));
    b.bind_func("t", &t_impl);
    b.bind_func("f", &f_impl);
    b.bind_func("e", &e_impl);
    b.bind_func("v", &v_impl);
    b
}

// ---------------------------------------------------------------------------
// trees

#[derive(Clone, Copy, Debug, PartialEq, Eq, Hash)]
enum AtomK {
    LitTrue,
    LitFalse,
    VarTrue,
    VarFalse,
    FoldFail,
    RunFail,
    Unbound,
    CallT,
    CallF,
    CallE,
    Lit1,
    Var0,
    Var1,
    Lit0,
}

const ATOMS_Q: [AtomK; 12] = [
    AtomK::LitTrue,
    AtomK::LitFalse,
    AtomK::VarTrue,
    AtomK::VarFalse,
    AtomK::FoldFail,
    AtomK::RunFail,
    AtomK::Unbound,
    AtomK::CallT,
    AtomK::CallF,
    AtomK::CallE,
    AtomK::Lit1,
    AtomK::Var0,
];
const ATOMS_T: [AtomK; 14] = [
    AtomK::LitTrue,
    AtomK::LitFalse,
    AtomK::VarTrue,
    AtomK::VarFalse,
    AtomK::FoldFail,
    AtomK::RunFail,
    AtomK::Unbound,
    AtomK::CallT,
    AtomK::CallF,
    AtomK::CallE,
    AtomK::Lit1,
    AtomK::Var0,
    AtomK::Var1,
    AtomK::Lit0,
];

impl AtomK {
    fn render(&self, slot: usize) -> String {
        match self {
            AtomK::LitTrue => "true".into(),
            AtomK::LitFalse => "false".into(),
            AtomK::VarTrue => "vt".into(),
            AtomK::VarFalse => "vf".into(),
            AtomK::FoldFail => "(1/0)".into(),
            AtomK::RunFail => "(z/0)".into(),
            AtomK::Unbound => "u".into(),
            AtomK::CallT => format!("t({})", slot),
            AtomK::CallF => format!("f({})", slot),
            AtomK::CallE => format!("e({})", slot),
            AtomK::Lit1 => "1".into(),
            AtomK::Var0 => "n0".into(),
            AtomK::Var1 => "n1".into(),
            AtomK::Lit0 => "0".into(),
        }
    }
    fn eval(&self, slot: usize, log: &mut Vec<(char, i64)>) -> RV {
        match self {
            AtomK::LitTrue | AtomK::VarTrue => RV::Val(V::Bool(true)),
            AtomK::LitFalse | AtomK::VarFalse => RV::Val(V::Bool(false)),
            AtomK::FoldFail | AtomK::RunFail | AtomK::Unbound => RV::Fail,
            AtomK::CallT => {
                log.push(('t', slot as i64));
                RV::Val(V::Bool(true))
            }
            AtomK::CallF => {
                log.push(('f', slot as i64));
                RV::Val(V::Bool(false))
            }
            AtomK::CallE => {
                log.push(('e', slot as i64));
                RV::Fail
            }
            AtomK::Lit1 | AtomK::Var1 => RV::Val(V::Int(1)),
            AtomK::Lit0 | AtomK::Var0 => RV::Val(V::Int(0)),
        }
    }
}

#[derive(Clone, Debug)]
enum RV {
    Val(V),
    Fail,
}
impl RV {
    fn class(&self) -> &'static str {
        match self {
            RV::Fail => "fail",
            RV::Val(V::Bool(true)) => "true",
            RV::Val(V::Bool(false)) => "false",
            RV::Val(v) => {
                if refmodel::truthy(v) {
                    "truthy"
                } else {
                    "falsy"
                }
            }
        }
    }
    fn show(&self) -> String {
        match self {
            RV::Val(v) => format!("Value({})", v.show()),
            RV::Fail => "Fail".into(),
        }
    }
}

#[derive(Clone, Debug)]
enum Shape {
    Leaf,
    Not(Box<Shape>),
    Or(Box<Shape>, Box<Shape>),
    And(Box<Shape>, Box<Shape>),
    Tern(Box<Shape>, Box<Shape>, Box<Shape>),
}

impl Shape {
    fn leaves(&self) -> usize {
        match self {
            Shape::Leaf => 1,
            Shape::Not(a) => a.leaves(),
            Shape::Or(a, b) | Shape::And(a, b) => a.leaves() + b.leaves(),
            Shape::Tern(a, b, c) => a.leaves() + b.leaves() + c.leaves(),
        }
    }
    fn op(&self) -> &'static str {
        match self {
            Shape::Leaf => "atom",
            Shape::Not(_) => "!",
            Shape::Or(..) => "||",
            Shape::And(..) => "&&",
            Shape::Tern(..) => "?:",
        }
    }
    fn render(&self, atoms: &[AtomK], slot: &mut usize, out: &mut String) {
        match self {
            Shape::Leaf => {
                out.push_str(&atoms[*slot].render(*slot));
                *slot += 1;
            }
            Shape::Not(a) => {
                out.push_str("!(");
                a.render(atoms, slot, out);
                out.push(')');
            }
            Shape::Or(a, b) | Shape::And(a, b) => {
                out.push('(');
                a.render(atoms, slot, out);
                out.push_str(if matches!(self, Shape::Or(..)) { " || " } else { " && " });
                b.render(atoms, slot, out);
                out.push(')');
            }
            Shape::Tern(c, x, y) => {
                out.push('(');
                c.render(atoms, slot, out);
                out.push_str(" ? ");
                x.render(atoms, slot, out);
                out.push_str(" : ");
                y.render(atoms, slot, out);
                out.push(')');
            }
        }
    }
    /// number of leaf slots consumed by this subtree (for skipping unevaluated branches)
    fn eval(&self, atoms: &[AtomK], slot: usize, log: &mut Vec<(char, i64)>) -> RV {
        match self {
            Shape::Leaf => atoms[slot].eval(slot, log),
            Shape::Not(a) => match a.eval(atoms, slot, log) {
                RV::Fail => RV::Fail,
                RV::Val(v) => RV::Val(V::Bool(!refmodel::truthy(&v))),
            },
            Shape::Or(a, b) => {
                let ra = a.eval(atoms, slot, log);
                if let RV::Val(v) = &ra {
                    if refmodel::truthy(v) {
                        return RV::Val(V::Bool(true));
                    }
                }
                let rb = b.eval(atoms, slot + a.leaves(), log);
                if let RV::Val(v) = &rb {
                    if refmodel::truthy(v) {
                        return RV::Val(V::Bool(true));
                    }
                }
                if matches!(ra, RV::Fail) || matches!(rb, RV::Fail) {
                    RV::Fail
                } else {
                    RV::Val(V::Bool(false))
                }
            }
            Shape::And(a, b) => match a.eval(atoms, slot, log) {
                RV::Fail => RV::Fail,
                RV::Val(v) => {
                    if !refmodel::truthy(&v) {
                        return RV::Val(V::Bool(false));
                    }
                    match b.eval(atoms, slot + a.leaves(), log) {
                        RV::Fail => RV::Fail,
                        RV::Val(w) => RV::Val(V::Bool(refmodel::truthy(&w))),
                    }
                }
            },
            Shape::Tern(c, x, y) => match c.eval(atoms, slot, log) {
                RV::Fail => RV::Fail,
                RV::Val(v) => {
                    if refmodel::truthy(&v) {
                        x.eval(atoms, slot + c.leaves(), log)
                    } else {
                        y.eval(atoms, slot + c.leaves() + x.leaves(), log)
                    }
                }
            },
        }
    }
    /// reference classes of the direct operands (for the violation signature)
    fn operand_classes(&self, atoms: &[AtomK], slot: usize) -> String {
        let mut scratch = Vec::new();
        let mut cls = |s: &Shape, at: usize| -> &'static str { s.eval(atoms, at, &mut scratch).class() };
        match self {
            Shape::Leaf => format!("{:?}", atoms[slot]),
            Shape::Not(a) => format!("!{}", cls(a, slot)),
            Shape::Or(a, b) => format!("{} || {}", cls(a, slot), cls(b, slot + a.leaves())),
            Shape::And(a, b) => format!("{} && {}", cls(a, slot), cls(b, slot + a.leaves())),
            Shape::Tern(c, x, y) => format!(
                "{} ? {} : {}",
                cls(c, slot),
                cls(x, slot + c.leaves()),
                cls(y, slot + c.leaves() + x.leaves())
            ),
        }
    }
}

fn shapes_with(nodes: usize, max_leaves: usize, memo: &mut Vec<Option<Vec<Shape>>>) -> Vec<Shape> {
    if let Some(Some(v)) = memo.get(nodes) {
        return v.clone();
    }
    let mut out = Vec::new();
    if nodes == 0 {
        out.push(Shape::Leaf);
    } else {
        for a in shapes_with(nodes - 1, max_leaves, memo) {
            out.push(Shape::Not(Box::new(a)));
        }
        for i in 0..nodes {
            let j = nodes - 1 - i;
            for a in shapes_with(i, max_leaves, memo) {
                for b in shapes_with(j, max_leaves, memo) {
                    if a.leaves() + b.leaves() > max_leaves {
                        continue;
                    }
                    out.push(Shape::Or(Box::new(a.clone()), Box::new(b.clone())));
                    out.push(Shape::And(Box::new(a.clone()), Box::new(b)));
                }
            }
        }
        for i in 0..nodes {
            for j in 0..(nodes - i) {
                let k = nodes - 1 - i - j;
                for a in shapes_with(i, max_leaves, memo) {
                    for b in shapes_with(j, max_leaves, memo) {
                        if a.leaves() + b.leaves() + 1 > max_leaves {
                            continue;
                        }
                        for c in shapes_with(k, max_leaves, memo) {
                            if a.leaves() + b.leaves() + c.leaves() > max_leaves {
                                continue;
                            }
                            out.push(Shape::Tern(Box::new(a.clone()), Box::new(b.clone()), Box::new(c)));
                        }
                    }
                }
            }
        }
    }
    while memo.len() <= nodes {
        memo.push(None);
    }
    memo[nodes] = Some(out.clone());
    out
}

pub struct Trees {
    atoms: Vec<AtomK>,
    shapes: Vec<Shape>,
    /// prefix sums of atoms^leaves
    offsets: Vec<u64>,
}

impl Trees {
    fn new(t: Tier) -> Trees {
        // thorough: (<= 4 internal nodes and <= 4 leaves) or (<= 3 internal nodes and <= 5 leaves)
        let (max_nodes, max_leaves) = t.pick((3usize, 4usize), (4usize, 5usize));
        let atoms: Vec<AtomK> = t.pick(ATOMS_Q.to_vec(), ATOMS_T.to_vec());
        let mut memo = Vec::new();
        let mut shapes = Vec::new();
        for n in 0..=max_nodes {
            for s in shapes_with(n, max_leaves, &mut memo) {
                let cap = if t == Tier::Thorough && n == 4 { 4 } else { max_leaves };
                if s.leaves() <= cap {
                    shapes.push(s);
                }
            }
        }
        let mut offsets = vec![0u64];
        for s in &shapes {
            let n = (atoms.len() as u64).pow(s.leaves() as u32);
            offsets.push(offsets.last().unwrap() + n);
        }
        Trees { atoms, shapes, offsets }
    }
    /// quick tier only: the shapes with <= 3 internal nodes and exactly 5 leaves over a reduced atom set
    /// (two nested ?: with a !, || or && inside: one leaf more than the main quick family reaches)
    fn five_leaves() -> Trees {
        let atoms = vec![AtomK::VarTrue, AtomK::VarFalse, AtomK::Var1, AtomK::Var0, AtomK::CallE, AtomK::Lit1];
        let mut memo = Vec::new();
        let mut shapes = Vec::new();
        for n in 0..=3 {
            for s in shapes_with(n, 5, &mut memo) {
                if s.leaves() == 5 {
                    shapes.push(s);
                }
            }
        }
        let mut offsets = vec![0u64];
        for s in &shapes {
            offsets.push(offsets.last().unwrap() + (atoms.len() as u64).pow(5));
        }
        Trees { atoms, shapes, offsets }
    }
    fn size(&self) -> u64 {
        *self.offsets.last().unwrap()
    }
    /// does one of the direct operands, compiled and run on its own, deviate from the reference?
    fn child_deviates(&self, shape: &Shape, atoms: &[AtomK]) -> bool {
        let kids: Vec<(&Shape, usize)> = match shape {
            Shape::Leaf => vec![],
            Shape::Not(a) => vec![(a, 0)],
            Shape::Or(a, b) | Shape::And(a, b) => vec![(a, 0), (b, a.leaves())],
            Shape::Tern(c, x, y) => vec![(c, 0), (x, c.leaves()), (y, c.leaves() + x.leaves())],
        };
        for (k, at) in kids {
            let mut src = String::new();
            let mut slot = at;
            k.render(atoms, &mut slot, &mut src);
            let mut exp_log = Vec::new();
            let exp = k.eval(atoms, at, &mut exp_log);
            take_log();
            let got = BASE.with(|b| real::eval_with(&src, b));
            let got_log = take_log();
            let ok = match (&exp, &got) {
                (RV::Fail, Outcome::Fail(..)) => true,
                (RV::Val(v), o) => matches!(o.value(), Some(g) if g.same(v)),
                _ => false,
            };
            if !ok || exp_log != got_log {
                return true;
            }
        }
        false
    }
    fn run(&self, idx: u64, acc: &mut Acc) {
        let si = match self.offsets.binary_search(&idx) {
            Ok(i) => i,
            Err(i) => i - 1,
        };
        let shape = &self.shapes[si];
        let nl = shape.leaves();
        let digits = unrank(idx - self.offsets[si], &vec![self.atoms.len() as u64; nl]);
        let atoms: Vec<AtomK> = digits.iter().map(|d| self.atoms[*d as usize]).collect();
        let mut src = String::new();
        let mut slot = 0;
        shape.render(&atoms, &mut slot, &mut src);
        let mut exp_log = Vec::new();
        let exp = shape.eval(&atoms, 0, &mut exp_log);

        take_log();
        let got = BASE.with(|b| real::eval_with(&src, b));
        let got_log = take_log();
        acc.eval();
        acc.class(&got.class());
        let fam = acc.family.clone();
        acc.nontrivial(&(fam, idx));

        let verdict: Option<&'static str> = match (&exp, &got) {
            (_, Outcome::Panic { .. }) => Some("panic"),
            (_, Outcome::CompileFail { .. }) | (_, Outcome::CompileErr(..)) => Some("compile-error"),
            (RV::Fail, Outcome::Fail(..)) => None,
            (RV::Fail, _) => Some("value-instead-of-failure"),
            (RV::Val(_), Outcome::Fail(..)) => Some("failure-instead-of-value"),
            (RV::Val(v), o) => match o.value() {
                Some(g) if g.same(v) => None,
                _ => Some("wrong-value"),
            },
        };
        let case = || json!({"src": src, "bindings": "vt=true vf=false z=1 n1=1 n0=0; t/f/e record their call and return true/false/an error"});
        // blame the smallest tree: when a direct operand, run as a program of its own, already
        // deviates, the deviation is reported at that smaller tree's own index
        if (verdict.is_some() || exp_log != got_log) && self.child_deviates(shape, &atoms) {
            acc.count("deviations attributed to a smaller tree", 1);
            return;
        }
        if let Some(kind) = verdict {
            acc.violation(
                &format!("tree [{}] {}", shape.operand_classes(&atoms, 0), kind),
                case(),
                format!("{} calls {:?}", exp.show(), exp_log),
                format!("{} calls {:?}", got.show(), got_log),
            );
        } else if exp_log != got_log {
            acc.violation(
                &format!("tree [{}] call-log-differs", shape.operand_classes(&atoms, 0)),
                case(),
                format!("{} calls {:?}", exp.show(), exp_log),
                format!("{} calls {:?}", got.show(), got_log),
            );
        }
        if acc.wants_sample() {
            acc.sample(json!({"src": src, "expected": exp.show(), "expected_calls": format!("{:?}", exp_log), "observed": got.show(), "root": shape.op()}));
        }
    }
}

// ---------------------------------------------------------------------------
// match

#[derive(Clone, Copy, Debug, PartialEq)]
enum Pat {
    Lit1,
    LitA,
    Gt0,
    Le0,
    TyInt,
    TyString,
    Any,
    LitTrue,
    LitFalse,
    EqTrue,
    TyBool,
}
const PATS: [Pat; 11] = [Pat::Lit1, Pat::LitA, Pat::Gt0, Pat::Le0, Pat::TyInt, Pat::TyString, Pat::Any, Pat::LitTrue, Pat::LitFalse, Pat::EqTrue, Pat::TyBool];

impl Pat {
    fn render(&self) -> &'static str {
        match self {
            Pat::Lit1 => "1",
            Pat::LitA => "'a'",
            Pat::Gt0 => ">0",
            Pat::Le0 => "<=0",
            Pat::TyInt => "int",
            Pat::TyString => "string",
            Pat::Any => "_",
            Pat::LitTrue => "true",
            Pat::LitFalse => "false",
            Pat::EqTrue => "==true",
            Pat::TyBool => "bool",
        }
    }
    /// Some(true/false) = matches / does not; None = not fixed by the property.
    /// A literal pattern is an equality test with that literal: where the reference model leaves the
    /// equality of two types open (an int and a bool, say), the pattern has to agree with what the
    /// implementation's own `==` gives for the same operands.
    fn matches(&self, s: &V) -> Option<bool> {
        let by_model = self.matches_model(s);
        if by_model.is_some() {
            return by_model;
        }
        let lit = match self {
            Pat::Lit1 => "1",
            Pat::LitA => "'a'",
            Pat::LitTrue | Pat::EqTrue => "true",
            Pat::LitFalse => "false",
            _ => return None,
        };
        match real::eval(&format!("s == {}", lit), &[("s", s.clone())]).value() {
            Some(V::Bool(b)) => Some(b),
            _ => None,
        }
    }
    fn matches_model(&self, s: &V) -> Option<bool> {
        match self {
            Pat::Any => Some(true),
            Pat::TyInt => Some(matches!(s, V::Int(_))),
            Pat::TyString => Some(matches!(s, V::Str(_))),
            Pat::Lit1 => refmodel::eq(s, &V::Int(1)),
            // a bool literal is compared like every other literal, not tested for truthiness
            Pat::LitTrue | Pat::EqTrue => refmodel::eq(s, &V::Bool(true)),
            Pat::LitFalse => refmodel::eq(s, &V::Bool(false)),
            Pat::TyBool => Some(matches!(s, V::Bool(_))),
            Pat::LitA => refmodel::eq(s, &V::s("a")),
            Pat::Gt0 => match refmodel::cmp(s, &V::Int(0)) {
                CmpRes::Ord(o) => Some(o == std::cmp::Ordering::Greater),
                CmpRes::Unordered => Some(false),
                _ => None,
            },
            Pat::Le0 => match refmodel::cmp(s, &V::Int(0)) {
                CmpRes::Ord(o) => Some(o != std::cmp::Ordering::Greater),
                CmpRes::Unordered => Some(false),
                _ => None,
            },
        }
    }
}

#[derive(Clone, Copy, Debug, PartialEq)]
enum Arm {
    Lit,
    Call,
    CallErr,
    Unbound,
    FoldFail,
}
const ARMS: [Arm; 5] = [Arm::Lit, Arm::Call, Arm::CallErr, Arm::Unbound, Arm::FoldFail];

fn scrutinees() -> Vec<V> {
    vec![
        V::Int(1),
        V::Int(0),
        V::Int(-3),
        V::UInt(1),
        V::Dbl(1.0),
        V::Dbl(f64::NAN),
        V::s("a"),
        V::s("b"),
        V::Bool(true),
        V::Null,
        V::list(&[V::Int(1)]),
        V::Bool(false),
        V::Int(5),
        V::s(""),
    ]
}

pub struct Matches {
    scr: Vec<V>,
    max_cases: usize,
    offsets: Vec<u64>,
}
impl Matches {
    fn new(t: Tier) -> Matches {
        let max_cases = t.pick(2usize, 3usize);
        let scr = scrutinees();
        let per_case = (PATS.len() * ARMS.len()) as u64;
        let mut offsets = vec![0u64];
        for n in 0..=max_cases {
            let sz = per_case.pow(n as u32) * scr.len() as u64 * 2;
            offsets.push(offsets.last().unwrap() + sz);
        }
        Matches { scr, max_cases, offsets }
    }
    fn size(&self) -> u64 {
        *self.offsets.last().unwrap()
    }
    fn run(&self, idx: u64, acc: &mut Acc) {
        let n = match self.offsets.binary_search(&idx) {
            Ok(i) => i,
            Err(i) => i - 1,
        };
        debug_assert!(n <= self.max_cases);
        let mut radices = vec![self.scr.len() as u64, 2];
        for _ in 0..n {
            radices.push(PATS.len() as u64);
            radices.push(ARMS.len() as u64);
        }
        let d = unrank(idx - self.offsets[n], &radices);
        let s = &self.scr[d[0] as usize];
        let bound = d[1] == 1;
        let mut b = base_bindings();
        let ssrc = if bound {
            b.bind_param("s", s.to_cel());
            "s".to_string()
        } else {
            s.lit().unwrap()
        };
        let mut cases = Vec::new();
        let mut parts = Vec::new();
        for k in 0..n {
            let p = PATS[d[2 + 2 * k] as usize];
            let a = ARMS[d[3 + 2 * k] as usize];
            let arm_src = match a {
                Arm::Lit => format!("{}", 10 + k),
                Arm::Call => format!("v({}, {})", k, 20 + k),
                Arm::CallErr => format!("e({})", k),
                Arm::Unbound => "u".to_string(),
                Arm::FoldFail => "(1/0)".to_string(),
            };
            parts.push(format!("case {}: {}", p.render(), arm_src));
            cases.push((p, a));
        }
        let src = format!("match {} {{ {} }}", ssrc, parts.join(", "));
        // reference
        let mut exp_log: Vec<(char, i64)> = Vec::new();
        let mut exp: Option<RV> = Some(RV::Val(V::Null));
        for (k, (p, a)) in cases.iter().enumerate() {
            match p.matches(s) {
                None => {
                    exp = None; // not fixed by the property from here on
                    break;
                }
                Some(false) => continue,
                Some(true) => {
                    exp = Some(match a {
                        Arm::Lit => RV::Val(V::Int(10 + k as i64)),
                        Arm::Call => {
                            exp_log.push(('v', k as i64));
                            RV::Val(V::Int(20 + k as i64))
                        }
                        Arm::CallErr => {
                            exp_log.push(('e', k as i64));
                            RV::Fail
                        }
                        Arm::Unbound | Arm::FoldFail => RV::Fail,
                    });
                    break;
                }
            }
        }
        take_log();
        let got = real::eval_with(&src, &b);
        let got_log = take_log();
        acc.eval();
        acc.class(&got.class());
        let case = || json!({"src": src, "s": s.show(), "bound": bound});
        if got.is_panic() {
            acc.violation("match panic", case(), "a value or an error".into(), got.show());
            return;
        }
        if got.is_compile_fail() {
            acc.violation("match compile-error", case(), "compiles".into(), got.show());
            return;
        }
        let exp = match exp {
            Some(e) => e,
            None => return,
        };
        acc.nontrivial(&("match", idx));
        let kind = match (&exp, &got) {
            (RV::Fail, Outcome::Fail(..)) => None,
            (RV::Fail, _) => Some("value-instead-of-failure"),
            (RV::Val(_), Outcome::Fail(..)) => Some("failure-instead-of-value"),
            (RV::Val(v), o) => match o.value() {
                Some(g) if g.same(v) => None,
                _ => Some("wrong-arm-or-value"),
            },
        };
        let which = cases
            .iter()
            .position(|(p, _)| p.matches(s) == Some(true))
            .map(|k| format!("case#{} pattern {}", k, cases[k].0.render()))
            .unwrap_or_else(|| "no case matches".to_string());
        if let Some(kind) = kind {
            acc.violation(
                &format!("match {} cases, {} on {} {}", n, which, s.type_name(), kind),
                case(),
                format!("{} calls {:?}", exp.show(), exp_log),
                format!("{} calls {:?}", got.show(), got_log),
            );
        } else if exp_log != got_log {
            acc.violation(
                &format!("match {} cases, {} on {} call-log-differs", n, which, s.type_name()),
                case(),
                format!("{} calls {:?}", exp.show(), exp_log),
                format!("{} calls {:?}", got.show(), got_log),
            );
        }
        if acc.wants_sample() {
            acc.sample(json!({"src": src, "expected": exp.show(), "observed": got.show()}));
        }
    }
}

// ---------------------------------------------------------------------------
// truthiness table

fn truth_pool() -> Vec<V> {
    vec![
        V::Bool(true),
        V::Bool(false),
        V::Int(1),
        V::Int(-1),
        V::Int(0),
        V::Int(i64::MIN),
        V::UInt(1),
        V::UInt(0),
        V::UInt(u64::MAX),
        V::Dbl(1.5),
        V::Dbl(0.0),
        V::Dbl(-0.0),
        V::Dbl(f64::NAN),
        V::Dbl(f64::from_bits(1)),
        V::Dbl(f64::INFINITY),
        V::s("a"),
        V::s(""),
        V::s(" "),
        V::s("\t"),
        V::s(" false"),
        V::s("0 "),
        V::s("no"),
        V::s("é"),
        V::Bytes(vec![97]),
        V::Bytes(vec![]),
        V::Bytes(vec![0]),
        V::list(&[V::Int(0)]),
        V::list(&[]),
        V::list(&[V::Null]),
        V::map(&[("k", V::Int(0))]),
        V::map(&[]),
        V::Null,
        V::Type("int".into()),
        V::Type("bool".into()),
        V::Ts(0),
        V::Ts(1_700_000_000 * NS),
        V::Dur(0),
        V::Dur(90 * NS),
    ]
}

/// (name, template with `$`, expected as function of truthiness; None = bool(string literal set))
const CONTEXTS: [&str; 18] = [
    "$ ? 1 : 2",
    "!$",
    "!!$",
    "$ || false",
    "false || $",
    "$ && true",
    "true && $",
    "[1].all(x, $)",
    "[1].exists(x, $)",
    "[1].exists_one(x, $)",
    "[1].filter(x, $)",
    "[1].map(x, $, 7)",
    "bool($)",
    "$ || vf",
    "vt && $",
    "vf || ($ ? 1 : 2) == 1",
    // predicates of macros over a MAP receiver
    "{'k': 1}.filter(x, $)",
    "{'k': 1}.map(x, $, 7)",
];

fn ctx_expected(ctx: &str, truthy: bool) -> V {
    match ctx {
        "$ ? 1 : 2" => V::Int(if truthy { 1 } else { 2 }),
        "!$" => V::Bool(!truthy),
        "[1].filter(x, $)" => V::List(if truthy { vec![V::Int(1)] } else { vec![] }),
        "{'k': 1}.filter(x, $)" => V::List(if truthy { vec![V::s("k")] } else { vec![] }),
        "{'k': 1}.map(x, $, 7)" => V::List(if truthy { vec![V::Int(7)] } else { vec![] }),
        "[1].map(x, $, 7)" => V::List(if truthy { vec![V::Int(7)] } else { vec![] }),
        _ => V::Bool(truthy),
    }
}

pub struct Truth {
    pool: Vec<V>,
}
impl Truth {
    fn new() -> Truth {
        Truth { pool: truth_pool() }
    }
    fn size(&self) -> u64 {
        (self.pool.len() * CONTEXTS.len() * 2) as u64
    }
    fn run(&self, idx: u64, acc: &mut Acc) {
        let d = unrank(idx, &[self.pool.len() as u64, CONTEXTS.len() as u64, 2]);
        let v = &self.pool[d[0] as usize];
        let ctx = CONTEXTS[d[1] as usize];
        let bound = d[2] == 1;
        let mut b = base_bindings();
        let vsrc = if bound {
            b.bind_param("w", v.to_cel());
            "w".to_string()
        } else {
            match v.src() {
                Some(s) => s,
                None => return,
            }
        };
        let src = ctx.replace('$', &vsrc);
        let got = real::eval_with(&src, &b);
        acc.eval();
        acc.class(&got.class());
        // bool(string) for the documented literal spellings is a conversion (C14)
        if ctx == "bool($)" {
            if let V::Str(s) = v {
                if ["1", "t", "true", "TRUE", "True", "0", "f", "false", "FALSE", "False"].contains(&s.as_str()) {
                    return;
                }
            }
        }
        acc.nontrivial(&("truth", idx));

        let truthy = refmodel::truthy(v);
        let exp = ctx_expected(ctx, truthy);
        let ok = matches!(got.value(), Some(g) if g.same(&exp));
        if !ok {
            let kind = if got.is_panic() {
                "panic"
            } else if got.is_fail() {
                "failure-instead-of-value"
            } else {
                "wrong-truthiness"
            };
            acc.violation(
                &format!("truthiness of {} in `{}` ({}) {}", v.type_name(), ctx, if bound { "bound" } else { "literal" }, kind),
                json!({"src": src, "value": v.show(), "bound": bound}),
                format!("Value({})", exp.show()),
                got.show(),
            );
        }
        if acc.wants_sample() {
            acc.sample(json!({"src": src, "value": v.show(), "expected": exp.show(), "observed": got.show()}));
        }
    }
}

// ---------------------------------------------------------------------------
// every kind of failure behaves like every other in the logical operators

/// expressions that fail when evaluated under `fk_bindings` (zz = 0, ss = 'a', ll = [1],
/// mm = {'a': 1}, kk = 1, uu unbound), one per way an instruction, a call or a macro can fail
const FAILURE_KINDS: [&str; 58] = [
    "1 / zz", "1 % zz", "9223372036854775807 + kk", "-(-9223372036854775807 - kk)", "kk + ss", "ss * 2", "-ss", "kk < ss", "kk in kk",
    "ll[5]", "ll[ss]", "ll[-2]", "mm['b']", "mm.b", "mm[kk]", "kk.a", "ss[0]",
    "{kk: 2}", "{ss: 1, kk: 2}", "[1 / zz][0]", "{'a': 1 / zz}.a",
    "size(kk)", "size(1 / zz)", "size(uu)", "(1 / zz).size()", "ss.contains(1 / zz)", "ss.contains(uu)", "ss.contains(kk)", "kk.contains(ss)", "ss.splitAt(9)",
    "int(ss)", "int(1 / zz)", "uint(-kk)", "string(1 / zz)", "type(1 / zz)", "timestamp(ss)", "duration(ss)", "timestamp(1 / zz)", "double(ss)",
    "abs()", "nosuch(kk)", "kk(1)", "ll.nosuch()", "v(1, 1 / zz)",
    "f'{1 / zz}'", "f'a{kk}{1 / zz}b'", "f'{uu}'",
    "ll.map(i, 1 / zz)", "ll.filter(i, 1 / zz)", "ll.all(i, 1 / zz > 0)", "ll.exists_one(i, i / zz > 0)", "ll.reduce(a, i, a / zz, 0)", "kk.map(i, i)", "(1 / zz).map(i, i)",
    "has(1 / zz)", "coalesce(1 / zz, 1)", "size(ll, ll)", "uu",
];

/// logical contexts; `{F}` is the failing operand
const FAILURE_CONTEXTS: [&str; 20] = [
    "({F}) || true",
    "true || ({F})",
    "({F}) || false",
    "false || ({F})",
    "({F}) && true",
    "true && ({F})",
    "false && ({F})",
    "({F}) && false",
    "({F}) ? 1 : 2",
    "true ? 1 : ({F})",
    "false ? ({F}) : 2",
    "true ? ({F}) : 2",
    "!({F})",
    "!!({F}) || true",
    "match 1 { case int: 1, case string: ({F}) }",
    "match 'x' { case int: 1, case string: ({F}) }",
    "(({F}) || false) || true",
    "[1].map(i, ({F}) || true)[0]",
    "size([({F}) || true])",
    "f'{({F}) || true}'",
];

fn fk_bindings<'a>() -> BindContext<'a> {
    let mut b = BindContext::new();
    b.bind_param("zz", CelValue::Int(0));
    b.bind_param("ss", CelValue::String("a".to_string()));
    b.bind_param("ll", CelValue::List(vec![CelValue::Int(1)]));
    let mut h = std::collections::HashMap::new();
    h.insert("a".to_string(), CelValue::Int(1));
    b.bind_param("mm", CelValue::Map(h));
    b.bind_param("kk", CelValue::Int(1));
    b.bind_func("v", &v_impl);
    b
}

/// the same expression with the variables written as literals (so the compiler may fold it)
fn fk_literal(f: &str) -> String {
    f.replace("zz", "0").replace("ss", "'a'").replace("ll", "[1]").replace("mm", "{'a': 1}").replace("kk", "1")
}

fn failure_kinds_size() -> u64 {
    (FAILURE_KINDS.len() * 2) as u64
}

fn run_failure_kind(idx: u64, acc: &mut Acc) {
    let kind = FAILURE_KINDS[(idx / 2) as usize];
    let literal = idx % 2 == 1;
    let f = if literal { fk_literal(kind) } else { kind.to_string() };
    let b = fk_bindings();
    let site = format!("failure-kind `{}`{}", kind, if literal { " (operands as literals)" } else { "" });
    let alone = real::eval_with(&f, &b);
    let _ = take_log();
    acc.eval();
    acc.class(&alone.class());
    if alone.is_compile_fail() {
        // the literal spelling is not an expression of the language (e.g. `1(1)` is, `0.a` is not)
        acc.count("literal spellings rejected by the parser (skipped)", 1);
        return;
    }
    if !alone.is_fail() {
        acc.violation(&format!("{} does-not-fail-on-its-own", site), json!({"src": f}), "an error".into(), alone.show());
        return;
    }
    acc.nontrivial(&idx);
    for ctx in FAILURE_CONTEXTS {
        let src = ctx.replace("{F}", &f);
        // the canonical failure in the same context: its behaviour is fixed by the trees family
        let canon = real::eval_with(&ctx.replace("{F}", "1 / zz"), &b);
        let _ = take_log();
        let got = real::eval_with(&src, &b);
        let _ = take_log();
        acc.evals(2);
        acc.class(&got.class());
        if got.is_panic() || got.is_compile_fail() {
            acc.violation(&format!("{} panic-or-compile-error in `{}`", site, ctx), json!({"src": src}), canon.show(), got.show());
            continue;
        }
        if !canon.agrees_class(&got) {
            acc.violation(
                &format!("{} is-not-treated-like-other-failures in `{}`", site, ctx),
                json!({"src": src, "bindings": "zz = 0, ss = 'a', ll = [1], mm = {'a': 1}, kk = 1, uu unbound"}),
                format!("as with 1 / zz in its place: {}", canon.show()),
                got.show(),
            );
        }
    }
    if acc.wants_sample() {
        acc.sample(json!({"failing_operand": f, "alone": alone.show(), "contexts": FAILURE_CONTEXTS.len()}));
    }
}

pub fn replay_families(t: Tier) -> Vec<Family<'static>> {
    let tr: &'static Trees = Box::leak(Box::new(Trees::new(t)));
    let m: &'static Matches = Box::leak(Box::new(Matches::new(t)));
    let th: &'static Truth = Box::leak(Box::new(Truth::new()));
    let t5: &'static Trees = Box::leak(Box::new(Trees::five_leaves()));
    vec![
        Family::new("trees-5-leaves", t5.size(), move |i, a| t5.run(i, a)),
        Family::new("trees", tr.size(), move |i, a| tr.run(i, a)),
        Family::new("match", m.size(), move |i, a| m.run(i, a)),
        Family::new("truthiness", th.size(), move |i, a| th.run(i, a)),
        Family::new("failure-kinds", failure_kinds_size(), run_failure_kind),
    ]
}

pub fn run(t: Tier) -> i32 {
    let mut rep = Report::new(ID, t, "exploration");
    let tr = Trees::new(t);
    let (mn, ml) = t.pick((3, 4), (4, 5));
    rep.rule = format!(
        "trees: every fully parenthesised tree over {{||, &&, ?:, !}} with <= {} internal nodes and <= {} leaves (thorough: 4-node trees up to 4 leaves; {} shapes; quick adds every shape with <= 3 nodes and exactly 5 leaves over 6 atoms),
 every leaf from {} atoms (literal and bound true/false, literal and bound truthy/falsy ints, a foldable failure 1/0, a run-time failure z/0, an unbound name, call-recording functions returning true/false/an error), executed through the public API; the outcome and the exact sequence of recorded calls must equal a reference lazy evaluator. match: every match with 0..{} cases over 11 patterns (incl. the bool literals, == true and the type bool) x 5 arms x 14 scrutinees, literal and bound; expected = arm of the first matching case, null if none; a literal pattern whose equality with the scrutinee the reference model leaves open (an int against a bool) has to agree with the implementation's own ==; other cases whose pattern comparison is not defined by the property are totality-only. failure-kinds: 58 expressions that fail, one per way an instruction, a call (failing argument, receiver, arity, unknown name), a conversion, an f-string hole, a map literal key, an index or a macro can fail, with variable and with literal operands, in 20 logical contexts (both sides of || and && against true and false, condition and both clauses of ?:, !, unselected match arms, nested in a macro body, a call argument and an f-string hole): the outcome must be the one the canonical failure 1/zz has in the same context (whose behaviour the trees family fixes), and each expression must fail on its own. truthiness: {} values of every type x {} contexts x literal/bound against one truthiness table. Non-trivial = the property fixes the outcome; distinct by index",
        mn,
        ml,
        tr.shapes.len(),
        tr.atoms.len(),
        t.pick(2, 3),
        truth_pool().len(),
        CONTEXTS.len()
    );
    rep.set("tree_shapes", json!(tr.shapes.len()));
    rep.run_family(Family::new("trees", tr.size(), |i, a| tr.run(i, a)));
    if t == Tier::Quick {
        // thorough covers these shapes with the full atom set
        let t5 = Trees::five_leaves();
        rep.set("tree_shapes_with_5_leaves", json!(t5.shapes.len()));
        rep.run_family(Family::new("trees-5-leaves", t5.size(), |i, a| t5.run(i, a)));
    }
    let m = Matches::new(t);
    rep.run_family(Family::new("match", m.size(), |i, a| m.run(i, a)));
    let th = Truth::new();
    rep.run_family(Family::new("truthiness", th.size(), |i, a| th.run(i, a)));
    rep.run_family(Family::new("failure-kinds", failure_kinds_size(), run_failure_kind));
    rep.assumptions = vec![
        "the kind of a failure is not compared (the property says 'fails')".into(),
        "a match whose pattern comparison is between unrelated types (== or < not fixed by the property) is checked for totality only".into(),
        "bool(s) for the documented literal spellings ('true', 'f', '0', ...) is a conversion (C14), not a truthiness test".into(),
        "trees are rendered fully parenthesised: precedence is C02's subject".into(),
    ];
    rep.finish()
}
