//! C01 — compile and evaluate are total: a value or an error, never a panic,
//! abort or hang.
use crate::engine::*;
use crate::isolate::{self, ChildResult};
use crate::real::{self, Outcome};
use crate::val::{V, NS};
use serde_json::json;
use std::time::Duration;

pub const ID: &str = "C01";

/// key = the panic site, so a known finding names one call site only
fn panic_key(o: &Outcome) -> Option<String> {
    if let Outcome::Panic { stage, msg } = o {
        let site = msg.rsplit(" @ ").next().unwrap_or("?");
        let site = site.rsplit("/repo/").next().unwrap_or(site);
        let site = match site.find("/.cargo/registry/src/") {
            Some(_) => site.rsplit('/').take(3).collect::<Vec<_>>().into_iter().rev().collect::<Vec<_>>().join("/"),
            None => site.to_string(),
        };
        Some(format!("panic {} at {}", stage, site))
    } else {
        None
    }
}

fn total(acc: &mut Acc, family_key: &str, src: &str, binds: &[(&str, V)], extra: serde_json::Value) {
    let got = real::eval(src, binds);
    acc.eval();
    acc.class(&got.class());
    if let Some(k) = panic_key(&got) {
        acc.violation(
            &format!("{} [{}]", k, family_key),
            json!({"src": src, "bindings": binds.iter().map(|(k, v)| json!([k, v.show()])).collect::<Vec<_>>(), "detail": extra}),
            "a value or an error".into(),
            got.show(),
        );
    }
    if acc.wants_sample() {
        acc.sample(json!({"src": src, "observed": got.show().chars().take(160).collect::<String>()}));
    }
}

// ---- boundary pool ------------------------------------------------------------

pub fn pool() -> Vec<V> {
    // chrono's DateTime<Utc> range in seconds (years -262143 .. 262142)
    let ts_min: i128 = -8_334_601_228_800;
    let ts_max: i128 = 8_210_266_876_799;
    let dur_max: i128 = (i64::MAX as i128) * 1_000_000; // chrono TimeDelta: +-i64::MAX milliseconds
    vec![
        V::Int(0),
        V::Int(1),
        V::Int(-1),
        V::Int(2),
        V::Int(i64::MAX),
        V::Int(i64::MIN),
        V::Int(i64::MIN + 1),
        V::Int(1 << 31),
        V::Int(64),
        V::UInt(0),
        V::UInt(1),
        V::UInt(1 << 63),
        V::UInt(u64::MAX),
        V::Dbl(0.0),
        V::Dbl(-0.0),
        V::Dbl(1.5),
        V::Dbl(-1.0),
        V::Dbl(f64::NAN),
        V::Dbl(f64::INFINITY),
        V::Dbl(f64::NEG_INFINITY),
        V::Dbl(f64::MAX),
        V::Dbl(f64::from_bits(1)),
        V::Dbl(9223372036854775808.0),
        V::Dbl(1e300),
        V::Bool(true),
        V::Bool(false),
        V::s(""),
        V::s("a"),
        V::s("é"),
        V::s("aé😀"),
        V::s("1"),
        V::s("UTC"),
        V::s("Asia/Tokyo"),
        V::s("America/New_York"),
        V::s("°C"),
        V::s("°"),
        V::s("("),
        V::s("(a)(x)?"),
        V::s("(a)|(b)"),
        V::Bytes(vec![]),
        V::Bytes(vec![0xff, 0xfe]),
        V::Bytes(vec![97]),
        V::List(vec![]),
        V::list(&[V::Int(1), V::Int(2), V::Int(3)]),
        V::list(&[V::Int(1), V::s("a"), V::Dbl(f64::NAN), V::Null, V::UInt(2)]),
        V::list(&[V::Dbl(f64::NAN), V::Dbl(1.0), V::Dbl(f64::NAN), V::Dbl(0.0)]),
        V::map(&[]),
        V::map(&[("a", V::Int(1)), ("b", V::list(&[V::Int(1)]))]),
        V::Null,
        V::Type("int".into()),
        V::Ts(0),
        V::Ts(ts_min * NS),
        V::Ts(ts_max * NS + 999_999_999),
        V::Ts(1_700_000_000 * NS + 500_000_000),
        V::Dur(0),
        V::Dur(dur_max),
        V::Dur(-dur_max),
        V::Dur(90 * NS),
        V::Dur(-1),
    ]
}

/// one value per type, for the higher arities
pub fn small_pool() -> Vec<V> {
    vec![
        V::Int(-1),
        V::Int(i64::MIN),
        V::UInt(2),
        V::Dbl(1.5),
        V::Bool(true),
        V::s("aé"),
        // a string that starts with a multi-byte character (byte-offset slicing inside unit, zone, pattern arguments)
        V::s("°C"),
        V::Bytes(vec![97]),
        V::list(&[V::Int(1), V::Int(2)]),
        V::map(&[("a", V::Int(1))]),
        V::Null,
        V::Ts(1_700_000_000 * NS),
        V::Dur(90 * NS),
    ]
}

fn place(v: &V, name: &'static str, as_lit: bool, binds: &mut Vec<(&'static str, V)>) -> String {
    if as_lit {
        if let Some(s) = v.src() {
            return s;
        }
    }
    if !binds.iter().any(|(k, _)| *k == name) {
        binds.push((name, v.clone()));
    }
    name.to_string()
}

// ---- operators x pool -----------------------------------------------------------

const BINOPS: [&str; 15] = ["||", "&&", "<", "<=", ">", ">=", "==", "!=", "in", "+", "-", "*", "/", "%", "INDEX"];

pub struct Ops {
    pool: Vec<V>,
}
impl Ops {
    pub fn new() -> Ops {
        Ops { pool: pool() }
    }
    pub fn size(&self) -> u64 {
        let n = self.pool.len() as u64;
        n * n * BINOPS.len() as u64 + n * 4
    }
    pub fn run(&self, idx: u64, acc: &mut Acc) {
        let n = self.pool.len() as u64;
        let nb = n * n * BINOPS.len() as u64;
        if idx < nb {
            let d = unrank(idx, &[n, n, BINOPS.len() as u64]);
            let (a, b, op) = (&self.pool[d[0] as usize], &self.pool[d[1] as usize], BINOPS[d[2] as usize]);
            for (la, lb) in [(false, false), (true, true), (true, false), (false, true)] {
                let mut binds = Vec::new();
                let sa = place(a, "a", la, &mut binds);
                let sb = place(b, "b", lb, &mut binds);
                let src = if op == "INDEX" { format!("{}[{}]", sa, sb) } else { format!("{} {} {}", sa, op, sb) };
                total(acc, &format!("op {}", op), &src, &binds, json!({"a": a.show(), "b": b.show()}));
            }
            acc.nontrivial(&idx);
        } else {
            let i = idx - nb;
            let a = &self.pool[(i / 4) as usize];
            let tmpl = ["-{}", "!{}", "{} ? 1 : 2", "--{}"][(i % 4) as usize];
            for lit in [false, true] {
                let mut binds = Vec::new();
                let sa = place(a, "a", lit, &mut binds);
                let src = tmpl.replace("{}", &sa);
                total(acc, &format!("op {}", tmpl), &src, &binds, json!({"a": a.show()}));
            }
            acc.nontrivial(&idx);
        }
    }
}

// ---- built-ins x argument tuples -----------------------------------------------

pub fn builtin_names() -> Result<Vec<String>, String> {
    let mut names: Vec<String> = Vec::new();
    let grab = |path: &str, pat: &regex::Regex, names: &mut Vec<String>| -> Result<(), String> {
        let text = std::fs::read_to_string(path).map_err(|e| format!("{}: {}", path, e))?;
        for c in pat.captures_iter(&text) {
            let n = c[1].to_string();
            if !names.contains(&n) {
                names.push(n);
            }
        }
        Ok(())
    };
    let tuple = regex::Regex::new(r#"\(\s*"(\w+)",\s*&"#).unwrap();
    grab("/repo/rscel/src/context/default_funcs.rs", &tuple, &mut names)?;
    grab("/repo/rscel/src/context/default_macros.rs", &tuple, &mut names)?;
    let ty = regex::Regex::new(r#"add_type\(\s*"(\w+)""#).unwrap();
    grab("/repo/rscel/src/context/type_funcs.rs", &ty, &mut names)?;
    if names.len() < 60 {
        return Err(format!("only {} built-in names found in the repository sources", names.len()));
    }
    Ok(names)
}

const MACRO_SHAPES: [&str; 8] = [
    "{A}.{F}(x, {B})",
    "{A}.{F}(x, x)",
    "{A}.{F}(x, {B}, x)",
    "{A}.{F}(acc, x, {B}, acc)",
    "{A}.{F}(acc, x, acc + x, {B})",
    "{F}({A}.k)",
    "{F}({A}, {B})",
    "{A}.{F}(1, {B})",
];

const VAR_SLOT_SHAPES: [&str; 10] = [
    "{A}.{F}(u.v, 1)",
    "{A}.{F}(u.v.w, u)",
    "{A}.{F}(u[0], 1)",
    "{A}.{F}(g(u), 1)",
    "{A}.{F}(u.g(), 1)",
    "{A}.{F}([u], 1)",
    "{A}.{F}(-u, 1)",
    "{A}.{F}(acc, u.v, acc, 0)",
    "{A}.{F}(u.v, x, acc, 0)",
    "{A}.{F}({A}.{F}(u.v, 1), 1)",
];

pub struct Builtins {
    names: Vec<String>,
    pool: Vec<V>,
    small: Vec<V>,
    max_small_arity: u32,
}
impl Builtins {
    pub fn new(t: Tier) -> Result<Builtins, String> {
        Ok(Builtins { names: builtin_names()?, pool: pool(), small: small_pool(), max_small_arity: t.pick(3, 4) })
    }
    fn per_name(&self) -> u64 {
        let n = self.pool.len() as u64;
        let s = self.small.len() as u64;
        let mut c = 1 + n + n * n; // arity 0,1,2 over the big pool
        for a in 3..=self.max_small_arity {
            c += s.pow(a);
        }
        c + n * n // macro shapes use (A, B) pairs
    }
    pub fn size(&self) -> u64 {
        self.names.len() as u64 * self.per_name()
    }
    pub fn run(&self, idx: u64, acc: &mut Acc) {
        let per = self.per_name();
        let name = &self.names[(idx / per) as usize];
        let mut i = idx % per;
        let n = self.pool.len() as u64;
        let s = self.small.len() as u64;
        let mut args: Vec<&V> = Vec::new();
        let mut macro_pair: Option<(&V, &V)> = None;
        if i == 0 {
        } else if i < 1 + n {
            args.push(&self.pool[(i - 1) as usize]);
        } else if i < 1 + n + n * n {
            let j = i - 1 - n;
            args.push(&self.pool[(j / n) as usize]);
            args.push(&self.pool[(j % n) as usize]);
        } else {
            i -= 1 + n + n * n;
            let mut done = false;
            for a in 3..=self.max_small_arity {
                let c = s.pow(a);
                if i < c {
                    for d in unrank(i, &vec![s; a as usize]) {
                        args.push(&self.small[d as usize]);
                    }
                    done = true;
                    break;
                }
                i -= c;
            }
            if !done {
                macro_pair = Some((&self.pool[(i / n) as usize], &self.pool[(i % n) as usize]));
            }
        }
        let names: [&'static str; 4] = ["a", "b", "c", "d"];
        if let Some((a, b)) = macro_pair {
            for lit in [false, true] {
                for shape in MACRO_SHAPES {
                    let mut binds = Vec::new();
                    let sa = place(a, "a", lit, &mut binds);
                    let sb = place(b, "b", lit, &mut binds);
                    let src = shape.replace("{A}", &sa).replace("{B}", &sb).replace("{F}", name);
                    total(acc, &format!("call {}", name), &src, &binds, json!({"a": a.show(), "b": b.show()}));
                }
            }
            acc.nontrivial(&idx);
            return;
        }
        // every name of the tables as a match pattern (type names are patterns of their own)
        if args.len() == 1 {
            for lit in [false, true] {
                for shape in ["match {A} { case {F}: 1, case _: 2 }", "match {A} { case {F}: {F} }", "match {F} { case {A}: 1 }", "match {A} { case =={F}: 1, case >{F}: 2 }"] {
                    let mut binds = Vec::new();
                    let sa = place(args[0], "a", lit, &mut binds);
                    let src = shape.replace("{A}", &sa).replace("{F}", name);
                    total(acc, &format!("match with {}", name), &src, &binds, json!({"a": args[0].show()}));
                }
            }
        }
        // the variable slot of a macro holding something that is not an identifier (the slot is
        // evaluated in an interpreter without bindings)
        if args.len() == 1 {
            for lit in [false, true] {
                for shape in VAR_SLOT_SHAPES {
                    let mut binds = Vec::new();
                    let sa = place(args[0], "a", lit, &mut binds);
                    let src = shape.replace("{A}", &sa).replace("{F}", name);
                    total(acc, &format!("call {}", name), &src, &binds, json!({"a": args[0].show()}));
                }
            }
        }
        for lit in [false, true] {
            let mut binds = Vec::new();
            let rendered: Vec<String> = args.iter().enumerate().map(|(k, v)| place(v, names[k], lit, &mut binds)).collect();
            // free-function form
            let src = format!("{}({})", name, rendered.join(", "));
            total(acc, &format!("call {}", name), &src, &binds, json!({"args": args.iter().map(|v| v.show()).collect::<Vec<_>>()}));
            // method form: first argument is the receiver
            if !rendered.is_empty() {
                let recv = if rendered[0].starts_with('-') { format!("({})", rendered[0]) } else { rendered[0].clone() };
                let src = format!("{}.{}({})", recv, name, rendered[1..].join(", "));
                total(acc, &format!("call {}", name), &src, &binds, json!({"args": args.iter().map(|v| v.show()).collect::<Vec<_>>()}));
            }
        }
        acc.nontrivial(&idx);
    }
}

// ---- token strings --------------------------------------------------------------

pub const TOKENS: [&str; 50] = [
    "+", "-", "*", "/", "%", "!", "<", "<=", ">", ">=", "==", "!=", "&&", "||", "?", ":", ",", ".", "(", ")", "[", "]", "{", "}",
    "in", "match", "case", "null", "true", "false", "x", "u", "f", "int", "size", "map", "has", "0", "1",
    "9223372036854775807", "18446744073709551615u", "1.5", "'a'", "\"\"", "b'a'", "f'{x}'", "r'\\'", "0x", "'", "é",
];

pub struct Tokens {
    maxlen: u32,
}
impl Tokens {
    pub fn new(t: Tier) -> Tokens {
        Tokens { maxlen: t.pick(4, 5) }
    }
    pub fn size(&self) -> u64 {
        (1..=self.maxlen).map(|l| (TOKENS.len() as u64).pow(l)).sum()
    }
    pub fn source(&self, mut idx: u64) -> String {
        let k = TOKENS.len() as u64;
        for l in 1..=self.maxlen {
            let c = k.pow(l);
            if idx < c {
                let d = unrank(idx, &vec![k; l as usize]);
                return d.iter().map(|i| TOKENS[*i as usize]).collect::<Vec<_>>().join(" ");
            }
            idx -= c;
        }
        unreachable!()
    }
    pub fn run(&self, idx: u64, acc: &mut Acc) {
        let src = self.source(idx);
        let binds = [("x", V::Int(1)), ("u", V::UInt(2))];
        let got = real::eval(&src, &binds);
        acc.eval();
        if idx % 4096 == 0 {
            acc.class(&got.class());
        }
        if let Some(k) = panic_key(&got) {
            acc.violation(&format!("{} [tokens]", k), json!({"src": src}), "a value or an error".into(), got.show());
        }
        if !got.is_compile_fail() {
            acc.nontrivial(&idx);
            acc.class(&got.class());
        }
        if acc.wants_sample() {
            acc.sample(json!({"src": src, "observed": got.show().chars().take(120).collect::<String>()}));
        }
    }
}

// ---- character strings: the lexical level --------------------------------------------

/// characters that take part in the inner structure of tokens (prefixes, escapes, exponents,
/// quotes, f-string braces) plus a few the scanner has no token for
pub const CHARS: [char; 30] = [
    'a', 'b', 'f', 'r', 'u', 'x', 'e', '0', '1', '9', '.', '\'', '"', '\\', '{', '}', '(', ')', '[', ']', ',', ':', '-', '+', ' ', '\n', 'é', '?', '#', '\0',
];

pub struct Chars {
    maxlen: u32,
}
impl Chars {
    pub fn new(t: Tier) -> Chars {
        Chars { maxlen: t.pick(4, 5) }
    }
    pub fn size(&self) -> u64 {
        (1..=self.maxlen).map(|l| (CHARS.len() as u64).pow(l)).sum()
    }
    pub fn source(&self, mut idx: u64) -> String {
        let k = CHARS.len() as u64;
        for l in 1..=self.maxlen {
            let c = k.pow(l);
            if idx < c {
                let d = unrank(idx, &vec![k; l as usize]);
                return d.iter().map(|i| CHARS[*i as usize]).collect();
            }
            idx -= c;
        }
        unreachable!()
    }
    pub fn run(&self, idx: u64, acc: &mut Acc) {
        let src = self.source(idx);
        let binds = [("a", V::Int(1)), ("b", V::s("é")), ("x", V::list(&[V::Int(1)]))];
        let got = real::eval(&src, &binds);
        acc.eval();
        if idx % 4096 == 0 {
            acc.class(&got.class());
        }
        if let Some(k) = panic_key(&got) {
            acc.violation(&format!("{} [characters]", k), json!({"src": src}), "a value or an error".into(), got.show());
        }
        if !got.is_compile_fail() {
            acc.nontrivial(&idx);
            acc.class(&got.class());
        }
        if acc.wants_sample() {
            acc.sample(json!({"src": src, "observed": got.show().chars().take(120).collect::<String>()}));
        }
    }
}

// ---- long lists of elements without a common order ----------------------------------------

/// element pools; a list takes its elements from one pool in rotation
fn long_list_pools() -> Vec<Vec<V>> {
    vec![
        vec![V::Int(3), V::Dbl(f64::NAN), V::s("a"), V::Dbl(1.5), V::Int(-1)],
        vec![V::Dbl(f64::NAN), V::Dbl(1.0), V::Dbl(f64::NAN), V::Dbl(0.0), V::Dbl(-2.5)],
        vec![V::Int(2), V::s("b"), V::Int(1), V::s("a"), V::Null, V::Bool(true)],
        vec![V::Int(5), V::UInt(3), V::Dbl(4.5), V::Bool(false), V::Int(-7)],
        vec![V::Bytes(vec![1]), V::s("x"), V::Bytes(vec![]), V::s("")],
        vec![V::list(&[V::Int(1)]), V::Int(1), V::map(&[("a", V::Int(1))]), V::Type("int".into())],
        vec![V::Ts(0), V::Dur(5), V::Ts(NS), V::Dur(-5), V::Int(0)],
    ]
}
const LONG_LENGTHS: [usize; 9] = [2, 19, 20, 21, 22, 33, 50, 64, 200];
const LONG_EXPRS: [&str; 8] = ["{L}.sort()", "sort({L})", "min({L})", "max({L})", "{L}.sort().size()", "{L}.map(x, x).sort()", "{L}.filter(x, x == x).sort()", "({L} + {L}).sort()"];

fn long_lists_size() -> u64 {
    (long_list_pools().len() * LONG_LENGTHS.len() * 6) as u64
}

fn run_long_list(idx: u64, acc: &mut Acc) {
    let pools = long_list_pools();
    let d = unrank(idx, &[pools.len() as u64, LONG_LENGTHS.len() as u64, 6]);
    let pool = &pools[d[0] as usize];
    let len = LONG_LENGTHS[d[1] as usize];
    let (step, rot) = ([1usize, 2, 3][(d[2] % 3) as usize], (d[2] / 3) as usize);
    let items: Vec<V> = (0..len).map(|i| pool[(i * step + rot) % pool.len()].clone()).collect();
    let l = V::List(items);
    acc.nontrivial(&idx);
    for e in LONG_EXPRS {
        total(acc, "long list", &e.replace("{L}", "l"), &[("l", l.clone())], json!({"pool": d[0], "length": len, "step": step}));
        if let Some(lit) = l.lit() {
            total(acc, "long list", &e.replace("{L}", &lit), &[], json!({"pool": d[0], "length": len, "step": step, "form": "literal"}));
        }
    }
}

// ---- long texts in the places error messages quote ---------------------------------------------

/// invalid sources that make the compiler quote user text; `#` is replaced by the text
const QUOTING_ERRORS: [&str; 10] = ["1 \"#\"", "a.\"#\"", "f'{\"#\" + }'", "\"#\" \"#\"", "#", "a.# +", "[1, \"#\" 2]", "{\"#\" 1}", "x ? \"#\"", "f'{# #}'"];

fn quoting_size() -> u64 {
    // text = k ASCII letters followed by n three-byte letters: every alignment of a byte offset
    (QUOTING_ERRORS.len() * 4 * 120) as u64
}

fn run_quoting(idx: u64, acc: &mut Acc) {
    let d = unrank(idx, &[QUOTING_ERRORS.len() as u64, 4, 120]);
    let (k, n) = (d[1] as usize, d[2] as usize + 1);
    let text = format!("{}{}", "a".repeat(k), "\u{65e5}".repeat(n));
    let src = QUOTING_ERRORS[d[0] as usize].replace('#', &text);
    acc.nontrivial(&idx);
    total(acc, "long text in a quoted position", &src, &[], json!({"ascii": k, "three_byte_letters": n}));
    // the same text as a value handed to functions that build messages from it
    if d[0] == 0 {
        for e in ["int(s)", "timestamp(s)", "duration(s)", "s.matches(s)", "uomConvert(1, s, s)", "s.splitAt(1)", "1 + s", "s.nosuch()"] {
            total(acc, "long text in a quoted position", e, &[("s", V::s(&format!("({}", text)))], json!({"ascii": k, "three_byte_letters": n}));
        }
    }
}

// ---- nesting ladders (child processes) --------------------------------------------

pub const CONSTRUCTS: [&str; 26] = [
    "paren", "list", "map", "neg", "not", "index", "call", "method-chain", "ternary-right", "binary-left", "binary-right-paren",
    "macro", "fstring", "match", "has", "member-chain",
    // left-nested chains of every other binary operator class (constant operands)
    "chain-or", "chain-and", "chain-eq", "chain-lt", "chain-in", "chain-sub", "chain-mul", "chain-mod",
    // values nested at run time: the source is flat, the value is as deep as the bound list `zs` is long
    "reduce-nested-list", "reduce-nested-map",
];

pub fn ladder_source(construct: &str, depth: usize) -> String {
    let d = depth;
    match construct {
        "paren" => format!("{}1{}", "(".repeat(d), ")".repeat(d)),
        "list" => format!("{}1{}", "[".repeat(d), "]".repeat(d)),
        "map" => format!("{}1{}", "{'a':".repeat(d), "}".repeat(d)),
        "neg" => format!("{}x", "-".repeat(d)),
        "not" => format!("{}x", "!".repeat(d)),
        "index" => format!("{}0{}", "l[".repeat(d), "]".repeat(d)),
        "call" => format!("{}1{}", "size(".repeat(d), ")".repeat(d)),
        "method-chain" => format!("'a'{}", ".trim()".repeat(d)),
        "ternary-right" => format!("{}1", "x > 0 ? 1 : ".repeat(d)),
        "binary-left" => format!("x{}", " + 1".repeat(d)),
        "binary-right-paren" => format!("{}x{}", "1 + (".repeat(d), ")".repeat(d)),
        "macro" => format!("{}x{}", "[1].map(v, ".repeat(d), ")".repeat(d)),
        "fstring" => {
            // quotes alternate so every level is a valid literal; level 0 is innermost
            let q = |i: usize| if i % 2 == 0 { '\'' } else { '"' };
            let mut s = String::new();
            for i in (0..d).rev() {
                s.push('f');
                s.push(q(i));
                s.push('{');
            }
            s.push('x');
            for i in 0..d {
                s.push('}');
                s.push(q(i));
            }
            s
        }
        "match" => format!("{}1{}", "match x { case 1: ".repeat(d), " }".repeat(d)),
        "has" => format!("{}m.a{}", "has(".repeat(d), ")".repeat(d)),
        "member-chain" => format!("m{}", ".a".repeat(d)),
        "chain-or" => format!("false{}", " || false".repeat(d)),
        "chain-and" => format!("true{}", " && true".repeat(d)),
        "chain-eq" => format!("true{}", " == true".repeat(d)),
        "chain-lt" => format!("false{}", " < true".repeat(d)),
        "chain-in" => format!("1{}", " in [1, true, false]".repeat(d)),
        "chain-sub" => format!("1{}", " - 0".repeat(d)),
        "chain-mul" => format!("1{}", " * 1".repeat(d)),
        "chain-mod" => format!("1{}", " % 2".repeat(d)),
        "reduce-nested-list" => "zs.reduce(acc, z, [acc], []).size()".to_string(),
        "reduce-nested-map" => "zs.reduce(acc, z, {'k': acc}, {}).size()".to_string(),
        _ => panic!("unknown construct"),
    }
}

/// executed in the child process
pub fn ladder_worker(construct: &str, depth: usize, stack: Option<usize>) -> i32 {
    isolate::limit_address_space(4 << 30);
    let src = ladder_source(construct, depth);
    let out = isolate::on_stack(stack, move || {
        let binds = [
            ("x", V::Int(1)),
            ("l", V::list(&[V::Int(0)])),
            ("m", V::map(&[("a", V::Int(1))])),
            ("zs", V::List(vec![V::Int(0); depth])),
        ];
        let o = real::eval(&src, &binds);
        // dropping / cloning / printing the program must be total as well
        if let Ok(p) = real::compile(&src) {
            let q = p.clone();
            let _ = format!("{:?}", q.ast().map(|_| 0));
            drop(q);
            drop(p);
        }
        o
    });
    println!("{} {}", out.class(), out.show().chars().take(200).collect::<String>());
    0
}

/// processor time after which a rung counts as a hang (the slowest terminating rung, the
/// 16384-link member chain in the dev profile, needs 25 s)
const HANG_CPU: Duration = Duration::from_secs(150);
pub struct Ladders {
    chain_cap: usize,
    value_cap: usize,
    depths: Vec<usize>,
    bins: Vec<(String, String)>,
}
const STACKS: [(&str, Option<usize>); 2] = [("main-8MiB", None), ("thread-2MiB", Some(2 << 20))];
impl Ladders {
    pub fn new(t: Tier) -> Ladders {
        let depths: Vec<usize> = match t {
            Tier::Quick => vec![1, 2, 4, 8, 12, 16, 32, 33, 64, 256, 1024, 4096, 4097, 65536],
            Tier::Thorough => {
                let mut v: Vec<usize> = (1..=80).collect();
                v.extend([96, 128, 192, 256, 384, 512, 768, 1024, 2048, 4096, 8192, 16384, 32768, 65536, 262144]);
                v
            }
        };
        let mut bins = Vec::new();
        if let Some(b) = isolate::self_bin("VERIF_SELF_BIN") {
            bins.push(("checked".to_string(), b));
        }
        if let Some(b) = isolate::self_bin("VERIF_DEV_BIN") {
            bins.push(("dev".to_string(), b));
        }
        Ladders { chain_cap: t.pick(4096, 16384), value_cap: t.pick(16384, 65536), depths, bins }
    }
    pub fn size(&self) -> u64 {
        (CONSTRUCTS.len() * self.depths.len() * self.bins.len() * STACKS.len()) as u64
    }
    pub fn run(&self, idx: u64, acc: &mut Acc) {
        let d = unrank(idx, &[CONSTRUCTS.len() as u64, self.bins.len() as u64, STACKS.len() as u64, self.depths.len() as u64]);
        let construct = CONSTRUCTS[d[0] as usize];
        let (profile, bin) = &self.bins[d[1] as usize];
        let (stack_name, stack) = STACKS[d[2] as usize];
        let mut depth = self.depths[d[3] as usize];
        // postfix chains build a flat tree but compile in quadratic time (16384 links take
        // seconds, 65536 minutes): still terminating, so the ladder stops at 16384 for them
        let chain_cap = self.chain_cap;
        if (construct == "member-chain" || construct == "method-chain") && depth > chain_cap {
            depth = chain_cap;
        }
        // building a value d levels deep costs d^2 copies: the quick tier stops at 16384 levels
        // (three of the four known overflows show there), the thorough tier goes on to 65536
        if construct.starts_with("reduce-nested") && depth > self.value_cap {
            depth = self.value_cap;
        }
        let args = vec![
            "C01".to_string(),
            "--ladder-worker".to_string(),
            construct.to_string(),
            depth.to_string(),
            stack.map(|s| s.to_string()).unwrap_or_else(|| "main".to_string()),
        ];
        if self.depths[d[3] as usize] > chain_cap && depth == chain_cap && self.depths.contains(&chain_cap) {
            // the capped rung is the rung `chain_cap` of this ladder, which runs on its own
            acc.eval();
            acc.count("capped_duplicate_rungs", 1);
            return;
        }
        let mut res = isolate::run_child(bin, &args, HANG_CPU);
        acc.eval();
        let bad = |r: &ChildResult| !matches!(r, ChildResult::Done(s) if !s.starts_with("panic"));
        if bad(&res) {
            // same-case-fails-twice rule
            let again = isolate::run_child(bin, &args, HANG_CPU);
            if !bad(&again) {
                acc.count("nonreproducible_child_failures", 1);
                res = again;
            }
        }
        let case = json!({"construct": construct, "depth": depth, "profile": profile, "stack": stack_name,
                          "src_prefix": ladder_source(construct, depth.min(3))});
        match &res {
            ChildResult::Done(s) => {
                let class = s.split(' ').next().unwrap_or("").to_string();
                acc.class(&class);
                if class.starts_with("panic") {
                    acc.violation(&format!("nesting {} panic", construct), case, "a value or an error".into(), s.clone());
                } else if class.starts_with("value") {
                    acc.nontrivial(&(construct, depth));
                }
            }
            ChildResult::Abort(sig) => {
                acc.class("abort");
                // the known dev/2 MiB finding starts at 14 levels; anything shallower is a new violation
                // values nested at run time overflow from about 4096 levels on (dev, 2 MiB); the source
                // of those rungs is flat, so the parser's nesting limit does not apply
                let dclass = if construct.starts_with("reduce-nested") {
                    if depth >= 2048 {
                        "depth>=2048"
                    } else {
                        "depth<2048"
                    }
                } else if depth >= 13 {
                    "depth>=13"
                } else {
                    "depth<13"
                };
                acc.violation(&format!("nesting {} aborts-process [{} {} {}]", construct, profile, stack_name, dclass), case, "a value or an error".into(), format!("child killed by signal {}", sig));
            }
            ChildResult::Hang => {
                acc.class("hang");
                acc.violation(&format!("nesting {} hang", construct), case, "a value or an error".into(), format!("no result after {} s of processor time", HANG_CPU.as_secs()));
            }
            ChildResult::Exit(c) => {
                acc.violation(&format!("nesting {} child-exit", construct), case, "a value or an error".into(), format!("child exit code {}", c));
            }
            ChildResult::SpawnError(e) => {
                acc.count("spawn_errors", 1);
                eprintln!("MACHINERY: spawn error {}", e);
            }
        }
        if acc.wants_sample() {
            acc.sample(json!({"construct": construct, "depth": depth, "profile": profile, "stack": stack_name, "result": format!("{:?}", res).chars().take(160).collect::<String>()}));
        }
    }
}

pub fn replay_families(t: Tier) -> Vec<Family<'static>> {
    let ops: &'static Ops = Box::leak(Box::new(Ops::new()));
    let bi: &'static Builtins = Box::leak(Box::new(Builtins::new(t).expect("builtin names")));
    let tk: &'static Tokens = Box::leak(Box::new(Tokens::new(t)));
    let ld: &'static Ladders = Box::leak(Box::new(Ladders::new(t)));
    let ch: &'static Chars = Box::leak(Box::new(Chars::new(t)));
    vec![
        Family::new("characters", ch.size(), move |i, a| ch.run(i, a)),
        Family::new("long-lists", long_lists_size(), run_long_list),
        Family::new("quoted-texts", quoting_size(), run_quoting),
        Family::new("ops", ops.size(), move |i, a| ops.run(i, a)),
        Family::new("builtins", bi.size(), move |i, a| bi.run(i, a)),
        Family::new("tokens", tk.size(), move |i, a| tk.run(i, a)),
        Family::new("ladders", ld.size(), move |i, a| ld.run(i, a)),
    ]
}

pub fn run(t: Tier) -> i32 {
    let mut rep = Report::new(ID, t, "exploration");
    rep.rule = "ops: every unary/binary operator, index, `in`, ternary over all ordered pairs of a 59-value boundary pool in literal and bound forms; builtins: every name found in the repository's function/macro/type tables called as function and as method with every argument tuple of arity 0..2 over the pool, arity 3..N over a 13-value pool, 8 macro shapes, and 10 shapes with a member access, index, call, list or negation in the variable slot of a macro; tokens: every space-joined string of 1..N tokens over a 50-token alphabet (operators, brackets, keywords, identifiers, extreme literals, hostile lexemes); quoted-texts: 10 invalid sources that make the compiler quote user text x texts of 0..3 ASCII letters followed by 1..120 three-byte letters (every alignment of a byte offset inside a message), and the same texts as arguments of message-building functions; long-lists: lists of 2..200 elements taken in rotation from 7 pools of elements without a common order (numbers with NaN, strings, null, bytes, lists, maps, types, timestamps, durations) under sort, min, max and macros feeding sort, bound and literal; every name of the tables also as a match pattern in 4 shapes; characters: every string of 1..4 (thorough: 5) characters over 30 characters that take part in the inner structure of tokens (prefix letters b f r u x e, digits, point, both quotes, backslash, braces, brackets, comma, colon, signs, blank, line break, a two-byte letter, ?, #, NUL); ladders: 26 nesting constructs (incl. left-nested chains of every binary operator class, and values nested at run time by reduce over a bound list) at increasing depths, each rung in its own child process, in two build profiles and on 8 MiB and 2 MiB stacks. Oracle: outcome is a value, an error or a syntax error, never a panic, abort or hang. Non-trivial = the case got past the parser (tokens, characters) / the rung produced a value (ladders) / every ops and builtins case; distinct by case index".to_string();
    let fams = replay_families(t);
    let n_ladder_bins = std::env::var("VERIF_DEV_BIN").map(|_| 2).unwrap_or(1);
    for f in fams {
        rep.run_family(f);
    }
    if n_ladder_bins < 2 {
        rep.caps.push("dev-profile binary not provided: ladders ran in one profile only".into());
    }
    if rep.acc.counters.get("spawn_errors").copied().unwrap_or(0) > 0 {
        eprintln!("MACHINERY ERROR: child processes could not be spawned");
        return 2;
    }
    rep.assumptions = vec![
        "source texts longer than the token bound and operands outside the pool are not explored".into(),
        "cyclic program graphs are explored by C12's check (same oracle)".into(),
        "hang = the child consumed 150 s of processor time (the slowest terminating rung needs 25 s) or 3000 s passed on the wall clock, twice".into(),
    ];
    rep.finish()
}
