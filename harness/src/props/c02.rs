//! C02 — parsing assigns the CEL grammar's precedence, associativity and grouping.
//!
//! Every flat operator sequence (binary operators and `? :`) up to a bound, with unary
//! prefix runs and postfix chains on the operands, is parsed by an independent
//! table-driven reference parser (the CEL grammar as the property states it) and by the
//! implementation; the implementation's public syntax tree, canonicalised, must equal the
//! reference tree in 9 renderings (minimal / fully parenthesised / doubly parenthesised x
//! three whitespace policies), and evaluation must agree with the reference tree.
use crate::astcanon::{self, S};
use crate::engine::*;
use crate::real::{self, Outcome};
use crate::refmodel::{self, Arith, CmpRes, Exp};
use crate::val::V;
use serde_json::json;

pub const ID: &str = "C02";

const BIN: [&str; 15] = ["||", "&&", "<", "<=", ">", ">=", "==", "!=", "in", "+", "-", "*", "/", "%", "^"];
// "^" is not an operator of the language: index 14 is replaced below, kept so the table has 15 slots
const OPS: [&str; 16] = ["||", "&&", "<", "<=", ">", ">=", "==", "!=", "in", "+", "-", "*", "/", "%", "?", ":"];

fn level(op: &str) -> Option<usize> {
    Some(match op {
        "||" => 0,
        "&&" => 1,
        "<" | "<=" | ">" | ">=" | "==" | "!=" | "in" => 2,
        "+" | "-" => 3,
        "*" | "/" | "%" => 4,
        _ => return None,
    })
}

// ---------------------------------------------------------------------------
// reference parser over a token list (the CEL grammar)

struct RP<'a> {
    t: &'a [String],
    i: usize,
}
impl<'a> RP<'a> {
    fn peek(&self) -> Option<&str> {
        self.t.get(self.i).map(|s| s.as_str())
    }
    fn next(&mut self) -> Option<&str> {
        let r = self.t.get(self.i).map(|s| s.as_str());
        self.i += 1;
        r
    }
    fn expr(&mut self) -> Result<S, ()> {
        let c = self.binary(0)?;
        if self.peek() == Some("?") {
            self.next();
            let t = self.binary(0)?; // the true branch is a conditional-or, not an expr
            if self.next() != Some(":") {
                return Err(());
            }
            let f = self.expr()?; // the false branch nests to the right
            return Ok(S::node("?:", vec![c, t, f]));
        }
        Ok(c)
    }
    /// precedence climbing over the binary levels 0..=4, all left-associative
    fn binary(&mut self, lvl: usize) -> Result<S, ()> {
        if lvl > 4 {
            return self.unary();
        }
        let mut lhs = self.binary(lvl + 1)?;
        loop {
            match self.peek() {
                Some(op) if level(op) == Some(lvl) => {
                    let op = op.to_string();
                    self.next();
                    let rhs = self.binary(lvl + 1)?;
                    lhs = S::node(&op, vec![lhs, rhs]);
                }
                _ => return Ok(lhs),
            }
        }
    }
    fn unary(&mut self) -> Result<S, ()> {
        match self.peek() {
            Some("!") => {
                let mut n = 0;
                while self.peek() == Some("!") {
                    self.next();
                    n += 1;
                }
                let mut m = self.member()?;
                for _ in 0..n {
                    m = S::node("!", vec![m]);
                }
                Ok(m)
            }
            Some("-") => {
                let mut n = 0;
                while self.peek() == Some("-") {
                    self.next();
                    n += 1;
                }
                let mut m = self.member()?;
                for _ in 0..n {
                    m = S::node("neg", vec![m]);
                }
                Ok(m)
            }
            _ => self.member(),
        }
    }
    fn member(&mut self) -> Result<S, ()> {
        let mut s = self.primary()?;
        loop {
            match self.peek() {
                Some(".") => {
                    self.next();
                    let id = self.next().ok_or(())?.to_string();
                    if !is_ident(&id) {
                        return Err(());
                    }
                    s = S::node(".", vec![s, S::Atom(id)]);
                }
                Some("(") => {
                    self.next();
                    let mut kids = vec![s];
                    if self.peek() != Some(")") {
                        loop {
                            kids.push(self.expr()?);
                            if self.peek() == Some(",") {
                                self.next();
                            } else {
                                break;
                            }
                        }
                    }
                    if self.next() != Some(")") {
                        return Err(());
                    }
                    s = S::node("call", kids);
                }
                Some("[") => {
                    self.next();
                    let i = self.expr()?;
                    if self.next() != Some("]") {
                        return Err(());
                    }
                    s = S::node("[]", vec![s, i]);
                }
                _ => return Ok(s),
            }
        }
    }
    fn primary(&mut self) -> Result<S, ()> {
        match self.next() {
            Some("(") => {
                let e = self.expr()?;
                if self.next() != Some(")") {
                    return Err(());
                }
                Ok(e)
            }
            Some(t) if is_ident(t) => Ok(S::atom(t)),
            _ => Err(()),
        }
    }
}

fn is_ident(t: &str) -> bool {
    t.chars().next().map(|c| c.is_ascii_alphabetic()).unwrap_or(false) && t != "in"
}

pub fn ref_parse(tokens: &[String]) -> Result<S, ()> {
    let mut p = RP { t: tokens, i: 0 };
    let s = p.expr()?;
    if p.i != tokens.len() {
        return Err(());
    }
    Ok(s)
}

// ---------------------------------------------------------------------------
// rendering

fn wordlike(t: &str) -> bool {
    t.chars().all(|c| c.is_ascii_alphanumeric() || c == '_')
}

fn join(tokens: &[String], ws: usize) -> String {
    let mut out = String::new();
    for (i, t) in tokens.iter().enumerate() {
        if i > 0 {
            match ws {
                0 => {
                    if wordlike(&tokens[i - 1]) && wordlike(t) {
                        out.push(' ');
                    }
                }
                1 => out.push(' '),
                _ => out.push_str("\n\t  "),
            }
        }
        out.push_str(t);
    }
    match ws {
        2 => format!(" \t{}\n ", out),
        _ => out,
    }
}

/// tokens of the reference tree with `wraps` pairs of parentheses around every operator node
fn render_tree(s: &S, wraps: usize, out: &mut Vec<String>, top: bool) {
    let open = |out: &mut Vec<String>| {
        for _ in 0..wraps {
            out.push("(".into());
        }
    };
    let close = |out: &mut Vec<String>| {
        for _ in 0..wraps {
            out.push(")".into());
        }
    };
    match s {
        S::Atom(a) => out.push(a.clone()),
        S::Node(op, k) => match op.as_str() {
            "?:" => {
                if !top || wraps > 1 {
                    open(out);
                }
                render_tree(&k[0], wraps, out, false);
                out.push("?".into());
                render_tree(&k[1], wraps, out, false);
                out.push(":".into());
                render_tree(&k[2], wraps, out, false);
                if !top || wraps > 1 {
                    close(out);
                }
            }
            "!" | "neg" => {
                open(out);
                out.push(if op == "!" { "!".into() } else { "-".into() });
                // the operand of a prefix operator is a member: wrap anything else
                match &k[0] {
                    S::Atom(_) => render_tree(&k[0], wraps, out, false),
                    S::Node(o, _) if o == "." || o == "call" || o == "[]" => render_tree(&k[0], wraps, out, false),
                    _ => {
                        out.push("(".into());
                        render_tree(&k[0], 0, out, false);
                        out.push(")".into());
                    }
                }
                close(out);
            }
            "." => {
                render_postfix_base(&k[0], wraps, out);
                out.push(".".into());
                render_tree(&k[1], wraps, out, false);
            }
            "call" => {
                render_postfix_base(&k[0], wraps, out);
                out.push("(".into());
                for (i, a) in k[1..].iter().enumerate() {
                    if i > 0 {
                        out.push(",".into());
                    }
                    render_tree(a, wraps, out, false);
                }
                out.push(")".into());
            }
            "[]" => {
                render_postfix_base(&k[0], wraps, out);
                out.push("[".into());
                render_tree(&k[1], wraps, out, false);
                out.push("]".into());
            }
            _ => {
                open(out);
                render_tree(&k[0], wraps, out, false);
                out.push(op.clone());
                render_tree(&k[1], wraps, out, false);
                close(out);
            }
        },
    }
}

fn render_postfix_base(b: &S, wraps: usize, out: &mut Vec<String>) {
    match b {
        S::Atom(_) => render_tree(b, wraps, out, false),
        S::Node(o, _) if o == "." || o == "call" || o == "[]" => render_tree(b, wraps, out, false),
        _ => {
            out.push("(".into());
            render_tree(b, 0, out, false);
            out.push(")".into());
        }
    }
}

// ---------------------------------------------------------------------------
// reference evaluation of a tree over int/bool environments

#[derive(Clone, Debug)]
enum RV {
    Val(V),
    Fail,
}

fn reval(s: &S, env: &[(&str, V)]) -> Option<RV> {
    Some(match s {
        S::Atom(a) => match env.iter().find(|(n, _)| n == a) {
            Some((_, v)) => RV::Val(v.clone()),
            None => RV::Fail,
        },
        S::Node(op, k) => match op.as_str() {
            "||" => {
                let a = reval(&k[0], env)?;
                if let RV::Val(v) = &a {
                    if refmodel::truthy(v) {
                        return Some(RV::Val(V::Bool(true)));
                    }
                }
                let b = reval(&k[1], env)?;
                if let RV::Val(v) = &b {
                    if refmodel::truthy(v) {
                        return Some(RV::Val(V::Bool(true)));
                    }
                }
                if matches!(a, RV::Fail) || matches!(b, RV::Fail) {
                    RV::Fail
                } else {
                    RV::Val(V::Bool(false))
                }
            }
            "&&" => match reval(&k[0], env)? {
                RV::Fail => RV::Fail,
                RV::Val(v) => {
                    if !refmodel::truthy(&v) {
                        RV::Val(V::Bool(false))
                    } else {
                        match reval(&k[1], env)? {
                            RV::Fail => RV::Fail,
                            RV::Val(w) => RV::Val(V::Bool(refmodel::truthy(&w))),
                        }
                    }
                }
            },
            "?:" => match reval(&k[0], env)? {
                RV::Fail => RV::Fail,
                RV::Val(v) => {
                    if refmodel::truthy(&v) {
                        reval(&k[1], env)?
                    } else {
                        reval(&k[2], env)?
                    }
                }
            },
            "!" => match reval(&k[0], env)? {
                RV::Fail => RV::Fail,
                RV::Val(v) => RV::Val(V::Bool(!refmodel::truthy(&v))),
            },
            "neg" => match reval(&k[0], env)? {
                RV::Fail => RV::Fail,
                RV::Val(v) => match refmodel::neg(&v) {
                    Exp::Val(r) => RV::Val(r),
                    Exp::Fail => RV::Fail,
                    Exp::Unspec => return None,
                },
            },
            "+" | "-" | "*" | "/" | "%" => {
                let a = reval(&k[0], env)?;
                let b = reval(&k[1], env)?;
                match (a, b) {
                    (RV::Fail, _) | (_, RV::Fail) => RV::Fail,
                    (RV::Val(x), RV::Val(y)) => {
                        let o = match op.as_str() {
                            "+" => Arith::Add,
                            "-" => Arith::Sub,
                            "*" => Arith::Mul,
                            "/" => Arith::Div,
                            _ => Arith::Rem,
                        };
                        match refmodel::arith(o, &x, &y) {
                            Exp::Val(r) => RV::Val(r),
                            Exp::Fail => RV::Fail,
                            Exp::Unspec => return None,
                        }
                    }
                }
            }
            "<" | "<=" | ">" | ">=" => {
                let a = reval(&k[0], env)?;
                let b = reval(&k[1], env)?;
                match (a, b) {
                    (RV::Fail, _) | (_, RV::Fail) => RV::Fail,
                    (RV::Val(x), RV::Val(y)) => match refmodel::cmp(&x, &y) {
                        CmpRes::Ord(o) => {
                            use std::cmp::Ordering::*;
                            RV::Val(V::Bool(match op.as_str() {
                                "<" => o == Less,
                                "<=" => o != Greater,
                                ">" => o == Greater,
                                _ => o != Less,
                            }))
                        }
                        CmpRes::Unordered => RV::Val(V::Bool(false)),
                        CmpRes::Incomparable => RV::Fail,
                        CmpRes::Unspec => return None,
                    },
                }
            }
            "==" | "!=" => {
                let a = reval(&k[0], env)?;
                let b = reval(&k[1], env)?;
                match (a, b) {
                    (RV::Fail, _) | (_, RV::Fail) => RV::Fail,
                    (RV::Val(x), RV::Val(y)) => match refmodel::eq(&x, &y) {
                        Some(e) => RV::Val(V::Bool(if op == "==" { e } else { !e })),
                        None => return None,
                    },
                }
            }
            "in" => {
                let a = reval(&k[0], env)?;
                let b = reval(&k[1], env)?;
                match (a, b) {
                    (RV::Fail, _) | (_, RV::Fail) => RV::Fail,
                    // the environments hold ints and bools only: `in` is an error on those
                    _ => RV::Fail,
                }
            }
            _ => return None,
        },
    })
}

// ---------------------------------------------------------------------------
// the enumeration

const PREFIX: [&[&str]; 5] = [&[], &["!"], &["!", "!"], &["-"], &["-", "-"]];
const POSTFIX: [&[&str]; 6] = [&[], &[".", "f"], &["[", "i", "]"], &["(", "y", ")"], &[".", "f", "(", "y", ")", "[", "i", "]"], &["(", "y", ",", "z", ")"]];
const NAMES: [&str; 5] = ["a", "b", "c", "d", "e"];

pub struct Space {
    maxk: usize,
    /// all-operands decoration up to this k (thorough), single-operand decoration above
    full_deco_k: usize,
    offsets: Vec<u64>,
    /// (k, mode) per block; mode 0 = plain, 1 = one decorated operand, 2 = all operands decorated
    blocks: Vec<(usize, u8)>,
}

const NDECO: u64 = (PREFIX.len() * POSTFIX.len()) as u64; // 30

impl Space {
    pub fn new(t: Tier) -> Space {
        let maxk = t.pick(3, 4);
        let full_deco_k = t.pick(1, 2);
        let mut offsets = vec![0u64];
        let mut blocks = Vec::new();
        let n = OPS.len() as u64;
        for k in 0..=maxk {
            // plain
            blocks.push((k, 0));
            offsets.push(offsets.last().unwrap() + n.pow(k as u32));
            // one operand decorated: position x decoration (minus the empty decoration)
            blocks.push((k, 1));
            offsets.push(offsets.last().unwrap() + n.pow(k as u32) * (k as u64 + 1) * (NDECO - 1));
            if k <= full_deco_k {
                blocks.push((k, 2));
                offsets.push(offsets.last().unwrap() + n.pow(k as u32) * NDECO.pow(k as u32 + 1));
            }
        }
        Space { maxk, full_deco_k, offsets, blocks }
    }
    pub fn size(&self) -> u64 {
        *self.offsets.last().unwrap()
    }

    /// index bound of the sequences with at most `k` operators (blocks are ordered by k)
    pub fn bound_for_k(&self, k: usize) -> u64 {
        match self.blocks.iter().position(|(bk, _)| *bk > k) {
            Some(i) => self.offsets[i],
            None => self.size(),
        }
    }

    pub fn tokens_of(&self, idx: u64) -> (Vec<String>, bool) {
        let bi = match self.offsets.binary_search(&idx) {
            Ok(i) => i,
            Err(i) => i - 1,
        };
        let (k, mode) = self.blocks[bi];
        let n = OPS.len() as u64;
        let mut rest = idx - self.offsets[bi];
        let mut deco: Vec<usize> = vec![0; k + 1];
        match mode {
            0 => {}
            1 => {
                let per = (k as u64 + 1) * (NDECO - 1);
                let d = rest % per;
                rest /= per;
                let pos = (d / (NDECO - 1)) as usize;
                deco[pos] = (d % (NDECO - 1)) as usize + 1;
            }
            _ => {
                for p in 0..=k {
                    deco[p] = (rest % NDECO) as usize;
                    rest /= NDECO;
                }
            }
        }
        let ops = unrank(rest, &vec![n; k]);
        let mut toks: Vec<String> = Vec::new();
        let mut decorated = false;
        for p in 0..=k {
            let pre = PREFIX[deco[p] / POSTFIX.len()];
            let post = POSTFIX[deco[p] % POSTFIX.len()];
            if !pre.is_empty() || !post.is_empty() {
                decorated = true;
            }
            toks.extend(pre.iter().map(|s| s.to_string()));
            toks.push(NAMES[p].to_string());
            toks.extend(post.iter().map(|s| s.to_string()));
            if p < k {
                toks.push(OPS[ops[p] as usize].to_string());
            }
        }
        let has_postfix = decorated && toks.iter().any(|t| t == "." || t == "[" || t == "(");
        (toks, has_postfix)

    }

    pub fn run(&self, idx: u64, acc: &mut Acc) {
        let (toks, has_postfix) = self.tokens_of(idx);
        let reference = ref_parse(&toks);
        let flat = join(&toks, 1);
        match &reference {
            Err(()) => {
                // outside the grammar (unbalanced or nested `?:` without parentheses): must be rejected
                for ws in 0..3 {
                    let src = join(&toks, ws);
                    let r = real::compile(&src);
                    acc.eval();
                    match r {
                        Ok(p) => {
                            acc.class("accepted-outside-grammar");
                            let got = p.ast().map(|a| astcanon::expr(a).show()).unwrap_or_default();
                            acc.violation(
                                "sequence-outside-the-grammar accepted",
                                json!({"src": src, "tokens": flat}),
                                "a syntax error (the CEL grammar gives this token sequence no structure)".into(),
                                format!("parsed as {}", got),
                            );
                        }
                        Err(o) => {
                            acc.class(&o.class());
                            if o.is_panic() {
                                acc.violation("sequence-outside-the-grammar panic", json!({"src": src}), "a syntax error".into(), o.show());
                            }
                        }
                    }
                }
                acc.nontrivial(&idx);
            }
            Ok(rt) => {
                acc.nontrivial(&idx);
                let root = match rt {
                    S::Atom(_) => "atom".to_string(),
                    S::Node(op, k) => match k.first() {
                        Some(S::Node(o2, _)) => format!("{} over {}", op, o2),
                        _ => match k.get(1) {
                            Some(S::Node(o2, _)) => format!("{} over {}", op, o2),
                            _ => op.clone(),
                        },
                    },
                };
                let mut full = Vec::new();
                render_tree(rt, 1, &mut full, true);
                let mut dbl = Vec::new();
                render_tree(rt, 2, &mut dbl, true);
                let renderings: [(&str, &Vec<String>); 3] = [("minimal", &toks), ("fully-parenthesised", &full), ("doubly-parenthesised", &dbl)];
                let mut first_prog: Option<rscel::Program> = None;
                for (pname, ptoks) in renderings {
                    for ws in 0..3 {
                        let src = join(ptoks, ws);
                        let r = real::compile(&src);
                        acc.eval();
                        match r {
                            Err(o) => {
                                acc.class(&o.class());
                                acc.violation(
                                    &format!("[{}] {} rendering rejected", root, pname),
                                    json!({"src": src, "tokens": flat, "whitespace": ws}),
                                    format!("parses as {}", rt.show()),
                                    o.show(),
                                );
                            }
                            Ok(p) => {
                                acc.class("parsed");
                                let got = p.ast().map(astcanon::expr);
                                if got.as_ref() != Some(rt) {
                                    acc.violation(
                                        &format!("[{}] wrong-structure in {} rendering", root, pname),
                                        json!({"src": src, "tokens": flat, "whitespace": ws}),
                                        rt.show(),
                                        got.map(|g| g.show()).unwrap_or_else(|| "<no tree exposed>".into()),
                                    );
                                }
                                // evaluation: all renderings agree with the reference tree
                                if !has_postfix {
                                    self.check_eval(acc, &root, pname, &src, rt, &p);
                                }
                                if first_prog.is_none() {
                                    first_prog = Some(p);
                                }
                            }
                        }
                    }
                }
                // the same sequence with every non-empty subset of its operands written as literals of
                // the bound values: the value must not depend on which operands the compiler can see
                // two environments: small ints (b spelled as the hex literal 0x1e), and boundary values
                // (minimum and maximum int, a uint, 2^32) where a regrouping changes overflow behaviour
                let lit_envs: [Vec<(&str, V)>; 2] = [
                    vec![("a", V::Int(7)), ("b", V::Int(30)), ("c", V::Int(2)), ("d", V::Int(5)), ("e", V::Int(11))],
                    vec![("a", V::Int(i64::MIN)), ("b", V::Int(i64::MAX)), ("c", V::Int(1)), ("d", V::UInt(0)), ("e", V::Int(1 << 32))],
                ];
                for (ei, env) in lit_envs.iter().enumerate() {
                    if has_postfix {
                        break;
                    }
                    if let Some(want) = reval(rt, env) {
                        let positions: Vec<usize> = toks.iter().enumerate().filter(|(_, t)| NAMES.contains(&t.as_str())).map(|(i, _)| i).collect();
                        for mask in 1u32..(1 << positions.len()) {
                            let mut lt = toks.clone();
                            for (bit, p) in positions.iter().enumerate() {
                                if mask & (1 << bit) != 0 {
                                    let name = lt[*p].clone();
                                    let v = &env.iter().find(|(n, _)| *n == name).unwrap().1;
                                    lt[*p] = match v {
                                        // one operand in hexadecimal, ending in the digit e
                                        V::Int(30) => "0x1e".to_string(),
                                        // the minimum int has no unparenthesised literal spelling as an operand
                                        V::Int(i) if *i == i64::MIN => "(-9223372036854775808)".to_string(),
                                        other => other.lit().unwrap(),
                                    };
                                }
                            }
                            // with blanks, without any, and with newline-tab runs between the tokens
                            for ws in 0..3 {
                                let src = join(&lt, [1, 0, 2][ws]);
                                let got = real::eval(&src, env);
                                acc.eval();
                                let ok = match (&want, &got) {
                                    (RV::Fail, Outcome::Fail(..)) => true,
                                    (RV::Val(v), o) => matches!(o.value(), Some(g) if g.same(v)),
                                    _ => false,
                                };
                                if !ok {
                                    acc.violation(
                                        &format!("[{}] evaluation-differs-from-reference-tree with literal operands ({}{})", root, ["small ints", "boundary values"][ei], ["", ", no blanks", ", newline-tab runs"][ws]),
                                        json!({"src": src, "bindings": env.iter().map(|(k, v)| json!([k, v.show()])).collect::<Vec<_>>(), "reference_tree": rt.show()}),
                                        format!("{:?}", want),
                                        got.show(),
                                    );
                                }
                                if ei == 1 && ws == 0 {
                                    break; // layouts are varied for the first environment only
                                }
                            }
                        }
                    }
                }
                if acc.wants_sample() {
                    acc.sample(json!({"tokens": flat, "reference_tree": rt.show(), "fully_parenthesised": join(&full, 1)}));
                }
            }
        }
    }

    fn check_eval(&self, acc: &mut Acc, root: &str, pname: &str, src: &str, rt: &S, p: &rscel::Program) {
        let envs: [Vec<(&str, V)>; 2] = [
            vec![("a", V::Int(7)), ("b", V::Int(3)), ("c", V::Int(2)), ("d", V::Int(5)), ("e", V::Int(11))],
            vec![("a", V::Bool(true)), ("b", V::Bool(false)), ("c", V::Bool(true)), ("d", V::Bool(false)), ("e", V::Int(0))],
        ];
        for env in envs.iter() {
            let want = match reval(rt, env) {
                Some(w) => w,
                None => continue,
            };
            let b = real::bindings(env);
            let got = real::exec_prog(p.clone(), &b);
            acc.eval();
            let ok = match (&want, &got) {
                (RV::Fail, Outcome::Fail(..)) => true,
                (RV::Val(v), o) => matches!(o.value(), Some(g) if g.same(v)),
                _ => false,
            };
            if !ok {
                acc.violation(
                    &format!("[{}] evaluation-differs-from-reference-tree in {} rendering", root, pname),
                    json!({"src": src, "bindings": env.iter().map(|(k, v)| json!([k, v.show()])).collect::<Vec<_>>(), "reference_tree": rt.show()}),
                    format!("{:?}", want),
                    got.show(),
                );
            }
        }
    }
}

// ---------------------------------------------------------------------------
// deep parentheses: redundant parentheses cost exactly one level of the nesting budget each

/// flat expressions (no nesting of their own); `#k` marks operand k
/// places that take a whole expression: an unparenthesised conditional there means the same as a
/// parenthesised one
const WHOLE_EXPR_PLACES: [&str; 9] = ["{#: 1}", "{'k': #}", "[#]", "[1, #]", "size([#])", "l[#]", "f'{#}'", "(#)", "[1].map(i, #)"];
const WHOLE_EXPRS: [&str; 5] = ["c ? 'a' : 'b'", "c ? 'a' : d ? 'b' : 'x'", "c || d", "c ? 0 : 1", "!c ? 'a' : 'b'"];

fn run_whole_place(idx: u64, acc: &mut Acc) {
    let d = unrank(idx, &[WHOLE_EXPR_PLACES.len() as u64, WHOLE_EXPRS.len() as u64]);
    let (place, e) = (WHOLE_EXPR_PLACES[d[0] as usize], WHOLE_EXPRS[d[1] as usize]);
    let bare = place.replace('#', e);
    let paren = place.replace('#', &format!("({})", e));
    acc.nontrivial(&idx);
    for (c, dv) in [(true, true), (true, false), (false, true), (false, false)] {
        let binds = [("c", V::Bool(c)), ("d", V::Bool(dv)), ("l", V::list(&[V::Int(7), V::Int(8)]))];
        let (r0, r1) = (real::eval(&paren, &binds), real::eval(&bare, &binds));
        acc.evals(2);
        acc.class(&r1.class());
        if !r0.agrees(&r1) || r1.is_compile_fail() != r0.is_compile_fail() {
            acc.violation(
                &format!("whole-expression place `{}` reads `{}` differently without parentheses", place, e),
                json!({"src": bare, "with_parentheses": paren, "c": c, "d": dv}),
                r0.show(),
                r1.show(),
            );
        }
    }
}

const DEEP_BASES: [&str; 8] = [
    "#0 - #1 - #2", "#0 + #1 * #2", "#0 < #1 && #2 > #0", "#0 > #1 || #1 > #2 && #2 > #0", "#0 == #1", "#0 * #1 % #2", "#0 != #1 - #2", "#0 - #1 / #2 + #0",
];
/// The parser bounds the nesting of an expression; a pair of redundant parentheses must cost
/// exactly what a pair of list brackets costs. The budget is measured, not assumed: the deepest
/// `[[..x..]]` the implementation accepts (at most 64 is looked at).
fn deep_levels() -> usize {
    static B: std::sync::OnceLock<usize> = std::sync::OnceLock::new();
    *B.get_or_init(|| {
        let mut k = 0;
        while k < 64 && real::compile(&format!("{}x{}", "[".repeat(k + 1), "]".repeat(k + 1))).is_ok() {
            k += 1;
        }
        k + 1
    })
}

fn deep_cases() -> Vec<(usize, usize, Option<usize>, usize)> {
    // (base, pairs around the whole, operand, pairs around the operand)
    let mut v = Vec::new();
    for b in 0..DEEP_BASES.len() {
        for j in 0..deep_levels() {
            if j > 0 {
                v.push((b, j, None, 0));
            }
            for op in 0..3 {
                if !DEEP_BASES[b].contains(&format!("#{}", op)) {
                    continue;
                }
                for k in 1..deep_levels() - j {
                    v.push((b, j, Some(op), k));
                }
            }
        }
    }
    v
}

fn run_deep(idx: u64, acc: &mut Acc) {
    let cases = deep_cases();
    let (b, j, op, k) = cases[idx as usize];
    let names = ["x", "y", "z"];
    let render = |wrap_op: Option<(usize, usize)>, whole: usize| -> String {
        let mut s = DEEP_BASES[b].to_string();
        for (i, n) in names.iter().enumerate() {
            let operand = match wrap_op {
                Some((o, k)) if o == i => format!("{}{}{}", "(".repeat(k), n, ")".repeat(k)),
                _ => n.to_string(),
            };
            s = s.replace(&format!("#{}", i), &operand);
        }
        format!("{}{}{}", "(".repeat(whole), s, ")".repeat(whole))
    };
    let plain = render(None, 0);
    let src = render(op.map(|o| (o, k)), j);
    let case = || json!({"src": src, "without_the_parentheses": plain, "pairs_around_the_whole": j, "pairs_around_operand": k});
    let site = format!("[{}] {} pairs of redundant parentheses", DEEP_BASES[b], if j + k < 16 { "<16" } else { "16..30" });
    let p0 = match real::compile(&plain) {
        Ok(p) => p,
        Err(o) => {
            acc.violation("deep-parentheses base-does-not-compile", json!({"src": plain}), "compiles".into(), o.show());
            return;
        }
    };
    acc.eval();
    acc.nontrivial(&idx);
    let p = match real::compile(&src) {
        Ok(p) => p,
        Err(o) => {
            acc.class(&o.class());
            acc.violation(&format!("{} rejected", site), case(), format!("accepted: {} levels of nesting at most", 1 + j + k), o.show());
            return;
        }
    };
    acc.class("compiled");
    let (t0, t1) = (p0.ast().map(|a| astcanon::expr(a).show()), p.ast().map(|a| astcanon::expr(a).show()));
    if t0 != t1 {
        acc.violation(&format!("{} change-the-tree", site), case(), format!("{:?}", t0), format!("{:?}", t1));
    }
    for env in [[3i64, 2, 1], [1, 5, 2], [0, 0, 7]] {
        let binds: Vec<(&str, V)> = names.iter().zip(env.iter()).map(|(n, v)| (*n, V::Int(*v))).collect();
        let b = real::bindings(&binds);
        let (r0, r1) = (real::exec_prog(p0.clone(), &b), real::exec_prog(p.clone(), &b));
        acc.evals(2);
        if !r0.agrees(&r1) {
            acc.violation(&format!("{} change-the-value", site), case(), r0.show(), r1.show());
        }
    }
    if acc.wants_sample() {
        acc.sample(json!({"src": src, "tree": t1}));
    }
}

pub fn replay_families(t: Tier) -> Vec<Family<'static>> {
    let sp: &'static Space = Box::leak(Box::new(Space::new(t)));
    vec![
        Family::new("sequences", sp.size(), move |i, a| sp.run(i, a)),
        Family::new("deep-parentheses", deep_cases().len() as u64, run_deep),
        Family::new("whole-expression-places", (WHOLE_EXPR_PLACES.len() * WHOLE_EXPRS.len()) as u64, run_whole_place),
    ]
}

pub fn run(t: Tier) -> i32 {
    let _ = BIN;
    let mut rep = Report::new(ID, t, "exploration");
    let sp = Space::new(t);
    rep.rule = format!(
        "sequences: every flat sequence operand (op operand)^k for k <= {} over the 14 binary operators and `?`/`:` (16 symbols), plain, with every non-empty decoration (5 prefix runs: none ! !! - -- x 6 postfix chains: none .f [i] (y) .f(y)[i] (y,z)) on one operand at a time, and for k <= {} on all operands at once; each sequence is parsed by an independent table-driven reference parser (levels: ?: right-nesting in the else branch, ||, &&, relations incl. in, + -, * / %, prefix runs, postfix chains; equal levels group left) and rendered 9 ways (as is / every operator node parenthesised / doubly parenthesised x no blanks / single blanks / newline-tab runs); the canonical form of Program::ast() must equal the reference tree in every rendering and the value under an int and a bool environment - also with every subset of the operands written as literals (small ints incl. a hexadecimal literal ending in e, in three layouts; and boundary values: minimum/maximum int, a uint, 2^32) - must equal the reference evaluation of the reference tree; deep-parentheses: 8 flat expressions with j pairs of parentheses around the whole and k pairs around one operand for every j + k up to the deepest nest of list brackets the implementation accepts (measured: 30 on this tree): accepted, same canonical tree and same value under 3 environments as without them; whole-expression-places: 5 conditional and || expressions in 9 places that take a whole expression (map key and value, list element, call argument, index, f-string hole, parentheses, macro body) with and without parentheses of their own: same outcome under all bindings; sequences the grammar gives no structure (unbalanced or nested ?: without parentheses) must be rejected. Non-trivial = every sequence; distinct by index",
        sp.maxk, sp.full_deco_k
    );
    rep.run_family(Family::new("sequences", sp.size(), |i, a| sp.run(i, a)));
    rep.run_family(Family::new("deep-parentheses", deep_cases().len() as u64, run_deep));
    rep.run_family(Family::new("whole-expression-places", (WHOLE_EXPR_PLACES.len() * WHOLE_EXPRS.len()) as u64, run_whole_place));
    rep.assumptions = vec![
        "the reference parser (c02.rs) is the reading of the CEL grammar named in the statement".into(),
        "call arguments are compared in source order (their stored order in the tree is an internal choice)".into(),
        "evaluation is compared only where the reference model defines the result (no bool-vs-int comparisons)".into(),
    ];
    rep.finish()
}
