//! C09 — constant folding is invisible: compile-time and run-time evaluation agree;
//! clock-reading calls are never frozen into the program.
use crate::engine::*;
use crate::real::{self, ErrKind, Outcome};
use crate::val::{V, NS};
use rscel::{ByteCode, CelValue};
use serde_json::json;

pub const ID: &str = "C09";

/// expression templates with holes $0..$2
pub fn templates() -> Vec<&'static str> {
    let mut t: Vec<&'static str> = vec![
        // operators
        "$0 + $1", "$0 - $1", "$0 * $1", "$0 / $1", "$0 % $1", "$0 == $1", "$0 != $1", "$0 < $1", "$0 <= $1", "$0 > $1",
        "$0 >= $1", "$0 in $1", "$0 && $1", "$0 || $1", "-$0", "!$0", "--$0", "!!$0", "-($0 + $1)",
        "$0 ? $1 : $2", "($0 ? $1 : $2) ? $1 : $0", "$0 ? $1 : ($1 ? $2 : $0)",
        "($0 + $1) * $2", "$0 + ($1 * $2)", "$0 - $1 - $2", "$0 / $1 / $2", "$0 || ($1 && $2)", "($0 || $1) && $2",
        "$0 < $1 == $2", "($0 ? $1 : $2) + 1", "$0 + 1 + $1", "1 + $0 + $1", "1 + 2 + $0",
        // match
        "match $0 { case $1: 'hit', case _: 'miss' }",
        "match $0 { case >$1: $2, case _: 0 }",
        "match $0 { case int: $1, case string: $2 }",
        "match $0 { case <=$1: 'le' }",
        "match $0 { case _: $1 }",
        // lists
        "[$0, $1, $2]", "[$0, $1][$2]", "[$0] + [$1]", "size([$0, $1])", "$0 in [$1, $2]", "[$0, $1][0]", "[[$0], [$1]][1][0]",
        "[$0, $1, $2][-1]", "[$0][$1]",
        // maps
        "{'a': $0, 'b': $1}", "{'a': $0, 'a': $1}", "{'a': $0, 'a': $1}.a", "{'a': $0, 'b': $1, 'a': $2}['a']", "{$0: 1, $1: 2}",
        "{'a': $0}[$1]", "{'a': {'b': $0}}.a.b", "$0 in {'a': $1}", "{'a': $0}.b", "{'k': [$0, $1]}.k[1]", "{$0: $1}[$0]",
        // type constructors
        "int($0)", "uint($0)", "double($0)", "string($0)", "bool($0)", "bytes($0)", "type($0)", "timestamp($0)", "duration($0)",
        "duration($0, $1)", "dyn($0)", "type($0) == type($1)", "string($0) + string($1)", "int($0) + int($1)",
        // built-ins
        "abs($0)", "pow($0, $1)", "sqrt($0)", "floor($0)", "ceil($0)", "round($0)", "log($0)", "lg($0)", "min($0, $1, $2)",
        "max($0, $1)", "$0.contains($1)", "$0.containsI($1)", "$0.startsWith($1)", "$0.endsWith($1)", "$0.split($1)",
        "$0.rsplit($1)", "$0.replace($1, $2)", "$0.remove($1)", "$0.size()", "size($0)", "$0.toLower()", "$0.toUpper()",
        "$0.trim()", "$0.matches($1)", "$0.splitAt($1)", "[$0, $1, $2].sort()", "zip([$0], [$1])",
        "uomConvert($0, 'm', 'ft')", "uomConvert($0, $1, 'kg')", "timestamp($0).getFullYear()", "$0.getHours()", "$0.getSeconds()",
        "$0.getDayOfWeek($1)", "$0 + duration($1)", "f'{$0}-{$1}'", "f'x{$0}'", "$0.splitWhiteSpace()", "$0.matchCaptures($1)",
        "$0.matchReplace($1, $2)", "$0.trimStartMatches($1)",
        // the remaining built-ins, so that every name of the function table occurs
        "$0.startsWithI($1)", "$0.endsWithI($1)", "$0.trimStart()", "$0.trimEnd()", "$0.trimEndMatches($1)", "$0.matchReplaceOnce($1, $2)",
        "$0.getDate()", "$0.getDate($1)", "$0.getDayOfMonth()", "$0.getDayOfYear()", "$0.getDayOfWeek()", "$0.getMinutes($1)",
        "$0.getMilliseconds()", "$0.getMonth($1)", "$0.getFullYear($1)", "sort([$0, $1])", "$0.sort()", "min($0)", "max($0, $1, $2)",
        "zip($0, $1)", "uomConvert($0, $1, $2)", "size($0) + size($1)", "pow($0, 2)", "round($0) + floor($1)",
        // has / coalesce (never folded) around foldable material
        "coalesce($0, $1)", "coalesce(null, $0, $1)", "has($0)", "has({'a': $0}.a)", "has({'a': $0}.b)", "coalesce({'a': $0}.b, $1)",
        // macros
        "[$0, $1].map(x, x + $2)", "[$0, $1].filter(x, x > $2)", "[$0, $1].all(x, x == $2)", "[$0].exists(x, $1)",
        "[$0, $1].exists_one(x, x == $2)", "[$0, $1].reduce(a, x, a + x, $2)", "[1, 2].map(x, $0)", "[1, 2].map(x, x > $0, x * $1)",
        "[$0].map(x, [x, $1])", "{'a': $0}.map(k, k)", "{'a': $0, 'b': $1}.filter(k, k != $2)", "[1, 2].filter(x, $0)",
        "[$0].map(x, {'k': $1})", "[$0].map(x, x)[0]", "[[$0]].map(x, x.map(y, y + $1))", "[1, 2, 3].all(x, x > $0 || $1)",
        "[$0, $1].map(x, x ? 'y' : 'n')", "[1].map(x, $0 ? $1 : $2)", "[1].map(x, match $0 { case $1: x, case _: $2 })",
        // a foldable call around a construct that absorbs failures around a macro reading a variable
        "string(match [1].map(x, $0) { case list: 'L', case _: 'other' })",
        "string([1].map(x, $0) == [$1] || $2)", "size([[1].filter(x, $0)].map(y, y || true))",
        "string(match [1].all(x, $0) { case bool: 'B', case _: 'other' })", "int(string(int($0)))",
        "[1].map(x, int(string($0)))", "int(f'{int($0)}')", "string(match {'a': $0}.b { case _: 'any' })",
        // constant failures next to holes: folding must keep the laziness and absorption rules
        "$0 && (1/0)", "$0 || (1/0)", "(1/0) || $0", "(1/0) && $0", "$0 ? (1/0) : $1", "$0 ? $1 : (1/0)", "[$0, 1/0][0]",
        "$0 && [1][5]", "$0 || int('x')", "($0 && (1/0)) ? 1 : 2", "[1].map(x, $0 && (1/0))", "!($0 && (1/0))",
        "$0 && $1 && (1/0)", "$0 || $1 || (1/0)", "($0 || (1/0)) && $1",
        // a failing argument of a function or conversion, constant or not
        "type(1 / $0)", "bool(1 / $0)", "max(2, 1 / $0)", "string(1 / $0)", "size([1 / $0])", "dyn(1 / $0)", "int(1 % $0) + 1", "abs(1 / $0)",
        "(1 / $0).size()", "'a'.contains(1 / $0)", "min(1 / $0, $1)", "zip([1 / $0], [$1])", "f'{1 / $0}'", "[1].map(x, type(1 / $0))",
        // a constant failing condition, and two operands that fail in different ways
        "(1/0) ? $0 : $1", "(1 / $0) ? $1 : $2", "[1][5] ? $0 : $1", "!(1 / $0) ? $1 : $2",
        "(1 / $0) + (1 % $1)", "(1 / $0) - (1 % $1)", "(1 / $0) * (1 % $1)", "(1 / $0) / (1 % $1)", "(1 / $0) % (1 % $1)",
        "(1 / $0) == (1 % $1)", "(1 / $0) != (1 % $1)", "(1 / $0) < (1 % $1)", "(1 / $0) >= (1 % $1)", "(1 / $0) in (1 % $1)",
        "(1 % $1) * (1 / $0)", "(1 % $1) + (1 / $0)", "(1 % $1) < (1 / $0)", "-(1 / $0) * (1 % $1)",
        "max(1 / $0, 1 % $1)", "pow(1 / $0, 1 % $1)", "(1 / $0).contains(1 % $1)", "[1, 2][1 / $0] + [1][1 % $1]", "f'{1 / $0}{1 % $1}'",
        "[1 % $1][1 / $0]", "{'a': 1}[1 / $0] + (1 % $1)", "size(1 / $0) + size(1 % $1)", "(1 / $0) ? (1 % $1) : 2",
        // run-time-only macros and functions nested in collections inside a foldable call
        "[1].map(z, [has($0)])", "zip([coalesce($0, 7)], [1])", "[1].map(z, [[has($0.a)]])", "[1].map(z, {'k': [coalesce($0, 1)]})",
        "[1].map(z, [has({'a': $0}.a), z])", "[[1].map(z, [coalesce(null, $0)])]",
        // functions and methods that exist only at run time (uf, um are bound by the caller), inside
        // constructs that absorb failures, inside a foldable call
        "[$1].map(z, match has($0) { case bool: 1, case _: 2 })", "[$1].map(z, match uf($0) { case int: 1, case _: 2 })",
        "[$1].map(z, uf($0) || true)", "[$1].map(z, $0.um() || true)", "[$0].map(z, match z.um() { case int: 1, case _: 2 })",
        "string(match uf($0) { case int: 'i', case _: 'o' })", "size([uf($0) || true, $1])", "[$0].filter(z, {'a': 1}.um() || true)",
        "[$0].map(z, match {'a': z}.nokey { case int: 1, case _: 2 })", "[$0].all(z, coalesce(z, 1) == 1 || true)",
        // ... with a hole in the receiver, so that one rendering cannot be folded at all
        "[$1].map(z, [has($0)])", "zip([coalesce($0, 7)], [$1])", "[$1].map(z, {'k': [coalesce($0, 1)]})", "[$1].map(z, [[has({'a': $0}.b)]])",
        "[$0].map(z, [has(z)])", "[$0].map(z, [[coalesce(z, 1)]])", "[$0].filter(z, [has(z)][0])",
        "[1, 2, 3].map(x, x > $0, x * 2)", "[1, 2, 3].map(x, $0, x)", "{'a': 1}.map(k, k == $0, k)",
        // macros nested inside collections inside macro bodies
        "[1, 2].map(i, [i, [10, 20].filter(v, v > $0)])", "[1].map(x, {'id': x, 'tags': ['a', 'b'].map(t, t + $0)})",
        "[1].map(x, [[2].map(y, [y, $0])])", "[[1].map(x, [x, $0])].map(z, z)",

    ];
    t.dedup();
    t
}

/// functions the caller binds at run time only: uf(x) = x, v.um() = v
fn uf_impl(_t: CelValue, a: Vec<CelValue>) -> CelValue {
    a.into_iter().next().unwrap_or(CelValue::Null)
}
fn um_impl(t: CelValue, _a: Vec<CelValue>) -> CelValue {
    t
}

fn arity(t: &str) -> usize {
    (0..3).filter(|i| t.contains(&format!("${}", i))).count()
}

pub fn pool(t: Tier) -> Vec<V> {
    let mut p = vec![
        V::Int(0),
        V::Int(1),
        V::Int(-1),
        V::Int(2),
        V::Int(i64::MAX),
        V::UInt(1),
        V::Dbl(1.5),
        V::Dbl(f64::NAN),
        V::s("a"),
        V::s(""),
        V::Bool(true),
        V::Bool(false),
        V::Null,
        V::list(&[V::Int(1)]),
        V::map(&[("a", V::Int(1))]),
    ];
    if t == Tier::Thorough {
        p.extend([
            V::Int(i64::MIN),
            V::UInt(u64::MAX),
            V::Dbl(0.0),
            V::s("ab"),
            V::s("1"),
            V::Bytes(vec![97]),
            V::Ts(1_700_000_000 * NS),
            V::Dur(90 * NS),
            V::Type("int".into()),
            V::list(&[]),
            V::Int(7),
            V::UInt(0),
            V::Dbl(-0.0),
            V::Dbl(f64::INFINITY),
            V::s("a b"),
            V::s("é"),
            V::Bytes(vec![]),
            V::list(&[V::s("a"), V::Null]),
            V::map(&[]),
            V::map(&[("a", V::list(&[V::Int(1)])), ("b", V::Null)]),
            V::Ts(0),
            V::Dur(-1_500_000_000),
        ]);
    }
    p
}

fn absent_class(k: &ErrKind) -> bool {
    k.is_absent()
}

pub struct Space {
    temps: Vec<&'static str>,
    pool: Vec<V>,
    offsets: Vec<u64>,
}

impl Space {
    pub fn new(t: Tier) -> Space {
        let temps = templates();
        let pool = pool(t);
        let n = pool.len() as u64;
        let mut offsets = vec![0u64];
        for tp in &temps {
            let k = arity(tp) as u32;
            // value tuples x (no hole unbound | hole j unbound)
            offsets.push(offsets.last().unwrap() + n.pow(k) * (k as u64 + 1));
        }
        Space { temps, pool, offsets }
    }
    pub fn size(&self) -> u64 {
        *self.offsets.last().unwrap()
    }
    pub fn run(&self, idx: u64, acc: &mut Acc) {
        let ti = match self.offsets.binary_search(&idx) {
            Ok(i) => i,
            Err(i) => i - 1,
        };
        let tp = self.temps[ti];
        let k = arity(tp);
        let n = self.pool.len() as u64;
        let mut rad = vec![k as u64 + 1];
        rad.extend(std::iter::repeat(n).take(k));
        let d = unrank(idx - self.offsets[ti], &rad);
        let unbound: Option<usize> = if d[0] == 0 { None } else { Some(d[0] as usize - 1) };
        let vals: Vec<&V> = (0..k).map(|i| &self.pool[d[1 + i] as usize]).collect();
        // timestamp(null) is timestamp() (known finding of C15: a null argument counts as absent)
        // and reads the clock, the one permitted source of variation
        if tp.contains("timestamp($0)") && matches!(vals[0], V::Null) {
            return;
        }

        let names = ["p", "q", "w"];
        // all subsets of holes rendered as literals (bit set = literal); an unbound hole is always a variable
        let mut reference: Option<(Outcome, String)> = None;
        for mask in 0u32..(1 << k) {
            if let Some(u) = unbound {
                if mask & (1 << u) != 0 {
                    continue;
                }
            }
            let mut src = tp.to_string();
            let mut binds: Vec<(&str, V)> = Vec::new();
            let mut ok = true;
            for i in 0..k {
                let text = if mask & (1 << i) != 0 {
                    match vals[i].src() {
                        // inside an f-string the literal may not contain quotes or braces
                        Some(s) if tp.starts_with("f'") && (s.contains('\'') || s.contains('{')) => {
                            ok = false;
                            break;
                        }
                        // parenthesised so that `0.f()` is not lexed as a float
                        Some(s) if tp.starts_with("f'") => s,
                        Some(s) => format!("({})", s),
                        None => {
                            ok = false;
                            break;
                        }
                    }
                } else {
                    if unbound != Some(i) {
                        binds.push((names[i], vals[i].clone()));
                    }
                    names[i].to_string()
                };
                src = src.replace(&format!("${}", i), &text);
            }
            if !ok {
                continue;
            }
            let got = {
                let mut bc = real::bindings(&binds);
                bc.bind_func("uf", &uf_impl);
                bc.bind_func("um", &um_impl);
                real::eval_with(&src, &bc)
            };
            acc.eval();
            acc.class(&got.class());
            match &reference {
                None => reference = Some((got, src)),
                Some((r, rsrc)) => {
                    let case = || {
                        json!({"template": tp, "all_variable_form": rsrc, "this_form": src,
                               "values": vals.iter().map(|v| v.show()).collect::<Vec<_>>(),
                               "unbound_hole": unbound, "literal_holes_mask": mask})
                    };
                    if got.is_panic() || r.is_panic() {
                        acc.violation(&format!("`{}` panic", tp), case(), r.show(), got.show());
                    } else if !r.agrees_class(&got) {
                        acc.violation(&format!("`{}` folded-and-run-time-results-differ", tp), case(), format!("the all-variable form gives {}", r.show()), got.show());
                    } else if let (Some(a), Some(b)) = (r.fail_kind(), got.fail_kind()) {
                        if absent_class(a) != absent_class(b) {
                            acc.violation(
                                &format!("`{}` failure-class-differs (absent vs other)", tp),
                                case(),
                                format!("the all-variable form gives {}", r.show()),
                                got.show(),
                            );
                        } else if a != b {
                            // "does not change the result ... this includes failures": the same failure
                            acc.violation(
                                &format!("`{}` failure-kind-differs", tp),
                                case(),
                                format!("the all-variable form gives {}", r.show()),
                                got.show(),
                            );
                        }
                    }
                }
            }
        }
        if k > 0 {
            acc.nontrivial(&idx);
        }
        if acc.wants_sample() {
            if let Some((r, s)) = &reference {
                acc.sample(json!({"template": tp, "all_variable_form": s, "values": vals.iter().map(|v| v.show()).collect::<Vec<_>>(), "unbound_hole": unbound, "outcome": r.show()}));
            }
        }
    }
}

// ---------------------------------------------------------------------------
// the clock is read at every execution

fn has_pushed_time(bc: &[ByteCode]) -> bool {
    bc.iter().any(|b| match b {
        ByteCode::Push(CelValue::TimeStamp(_)) => true,
        ByteCode::Push(CelValue::ByteCode(inner)) => has_pushed_time(&inner.iter().cloned().collect::<Vec<_>>()),
        _ => false,
    })
}

const CLOCK_SRCS: [&str; 27] = [
    "timestamp(null)",
    "[timestamp(null)][0]",
    "type(now())(null)",
    "[1].map(i, timestamp(null))[0]",

    "type(timestamp(0))()",
    "[timestamp][0]()",
    "(true ? timestamp : int)()",
    "{'t': timestamp}.t()",
    "[type(now())][0]()",
    "[1].map(i, type(timestamp(i))())[0]",

    // two and more call / macro-body blocks below a foldable call
    "dyn(dyn(now()))",
    "[1].map(x, dyn(timestamp()))[0]",
    "[[1].map(x, now())[0]].map(y, y)[0]",
    "timestamp(string(dyn(now())))",
    "[1].map(x, [2].map(y, [now()][0])[0])[0]",
    "{'a': [dyn(timestamp())]}.a[0]",
    // receiver form on a constant receiver
    "(1).now()",
    "'utc'.now()",
    "[1].map(x, x.now())[0]",
    "now()",
    "timestamp()",
    "[now()][0]",
    "now() + duration(0)",
    "true ? now() : timestamp(0)",
    "[1].map(x, now())[0]",
    "{'t': timestamp()}.t",
    "coalesce(null, now())",
];

fn run_clock(idx: u64, acc: &mut Acc) {
    let src = CLOCK_SRCS[idx as usize];
    let before = chrono::Utc::now();
    let prog = match real::compile(src) {
        Ok(p) => p,
        Err(o) => {
            acc.violation(&format!("clock `{}` does-not-compile", src), json!({"src": src}), "compiles".into(), o.show());
            return;
        }
    };
    let frozen = has_pushed_time(&prog.bytecode().iter().cloned().collect::<Vec<_>>());
    let mut obs: Vec<i128> = Vec::new();
    let mut ctx = rscel::CelContext::new();
    ctx.add_program("main", prog);
    let b = rscel::BindContext::new();
    for _ in 0..3 {
        std::thread::sleep(std::time::Duration::from_millis(12));
        let got = real::exec_in(&mut ctx, "main", &b);
        acc.eval();
        acc.class(&got.class());
        match got.value() {
            Some(V::Ts(ns)) => obs.push(ns),
            _ => {
                acc.violation(&format!("clock `{}` not-a-timestamp", src), json!({"src": src}), "a timestamp".into(), got.show());
                return;
            }
        }
    }
    let compile_ns = before.timestamp() as i128 * NS + before.timestamp_subsec_nanos() as i128;
    // The verdict must not depend on how the wall clock behaves (it may be stepped while the check
    // runs): a reading that is repeated bit for bit 12 ms later was not read from the clock
    let increasing = obs.windows(2).all(|w| w[1] != w[0]);
    let after_compile = obs[0] != compile_ns;
    acc.nontrivial(&("clock", idx));
    if frozen || !increasing || !after_compile {
        acc.violation(
            &format!("clock `{}` frozen-at-compile-time", src),
            json!({"src": src, "compiled_at_ns": compile_ns.to_string(), "executions_ns": obs.iter().map(|o| o.to_string()).collect::<Vec<_>>(), "bytecode_holds_a_timestamp_constant": frozen}),
            "each execution reads the clock: no two executions 12 ms apart give the same nanosecond reading, no timestamp constant in the bytecode".into(),
            format!("executions {:?}", obs),
        );
    }
    if acc.wants_sample() {
        acc.sample(json!({"src": src, "executions_ns": obs.iter().map(|o| o.to_string()).collect::<Vec<_>>()}));
    }
}

pub fn replay_families(t: Tier) -> Vec<Family<'static>> {
    let sp: &'static Space = Box::leak(Box::new(Space::new(t)));
    vec![
        Family::new("templates", sp.size(), move |i, a| sp.run(i, a)),
        Family::new("clock", CLOCK_SRCS.len() as u64, run_clock),
    ]
}

pub fn run(t: Tier) -> i32 {
    let mut rep = Report::new(ID, t, "exploration");
    let sp = Space::new(t);
    rep.rule = format!(
        "templates: {} expression templates with 1..3 holes (every operator, ?:, match, list/map construction incl. repeated keys, index, member, type constructors, built-ins with constant and partly constant arguments, has/coalesce, every macro) x every tuple of hole values from a {}-value pool x (all holes bound | hole j left unbound at run time) x every subset of the bound holes written as a literal of the bound value instead of a variable: all renderings of one case must give the same value (bit for bit) or all fail, failures in the same absent/other class; the all-variable rendering runs entirely in the VM, the all-literal one entirely in the compiler. clock: {} programs reading the clock, compiled once, executed three times 12 ms apart. Non-trivial = every case with at least one hole; distinct by index",
        sp.temps.len(),
        sp.pool.len(),
        CLOCK_SRCS.len()
    );
    rep.set("templates", json!(sp.temps.len()));
    rep.run_family(Family::new("templates", sp.size(), |i, a| sp.run(i, a)));
    rep.run_family(Family::new("clock", CLOCK_SRCS.len() as u64, run_clock));
    rep.assumptions = vec![
        "the wall clock does not step back by 5 ms or more between two observations 12 ms apart".into(),
        "error kinds are compared only across the absent/other boundary that has()/coalesce() observe; other kind differences are counted, not reported".into(),
        "no third oracle: the comparison is differential between renderings".into(),
    ];
    rep.finish()
}
