//! C12 — names resolve in a fixed order; program references compose and are depth-bounded.
//!
//! collisions   every subset of {type, variable, stored program} behind one identifier, of
//!              {bound function, macro, type constructor} in call position, field vs method;
//!              rebinding and re-adding replace
//! graphs       explicit-state: ALL reference graphs on n named programs with out-degree <= 1,
//!              every edge through one of 9 referencing constructs; acyclic -> value by
//!              substitution, a cycle reachable from the start -> an error. Graphs with a cycle
//!              run in child processes (both stack sizes, two build profiles): never an abort
//! chains       chains of length 1..64 through each construct, with a 64-element macro loop
//!              inside one link, in child processes
//! json         every JSON value of depth <= 2 over 9 atoms bound from JSON vs bound directly
use crate::engine::*;
use crate::isolate::{self, ChildResult};
use crate::real::{self, Outcome};
use crate::val::V;
use rscel::{BindContext, CelContext, CelValue};
use serde_json::json;
use std::collections::{BTreeMap, HashMap};
use std::time::Duration;

pub const ID: &str = "C12";

// ---------------------------------------------------------------------------
// collisions

fn g_func(_t: CelValue, _a: Vec<CelValue>) -> CelValue {
    CelValue::String("function".into())
}

/// contexts in which a bare identifier `$` is resolved
const IDENT_CTX: [&str; 8] = ["$", "[$][0]", "idf($)", "[1].map(q, $)[0]", "true ? $ : 0", "{'k': $}.k", "coalesce($, 9)", "f'{$}'"];

fn idf_impl(_t: CelValue, a: Vec<CelValue>) -> CelValue {
    a.into_iter().next().unwrap_or(CelValue::Null)
}

fn run_collision(idx: u64, acc: &mut Acc) {
    // idx -> (scenario, subset bits)
    let d = unrank(idx, &[6, 8, IDENT_CTX.len() as u64]);
    let scen = d[0];
    let bits = d[1];
    let ictx = IDENT_CTX[d[2] as usize];
    if scen >= 2 && d[2] != 0 {
        return;
    }
    let has = |i: u64| bits & (1 << i) != 0;
    let mut ctx = CelContext::new();
    let mut b = BindContext::new();
    let (src, want, what): (String, Result<V, ()>, String) = match scen {
        // identifier `v`: variable, then stored program, else unbound
        0 => {
            if has(0) {
                b.bind_param("v", CelValue::Int(1));
            }
            if has(1) {
                ctx.add_program_str("v", "2").unwrap();
            }
            if has(2) {
                return;
            }
            b.bind_func("idf", &idf_impl);
            let w = if has(0) { Ok(V::Int(1)) } else if has(1) { Ok(V::Int(2)) } else { Err(()) };
            let w = match (ictx, w) {
                ("coalesce($, 9)", Err(())) => Ok(V::Int(9)),
                ("f'{$}'", Ok(V::Int(n))) => Ok(V::Str(format!("{}", n))),
                (_, w) => w,
            };
            (ictx.replace('$', "v"), w, format!("identifier v in `{}`: variable={} program={}", ictx, has(0), has(1)))
        }
        // identifier `int`: the built-in type name wins over a variable and a program of that name
        1 => {
            if has(0) {
                b.bind_param("int", CelValue::Int(1));
            }
            if has(1) {
                ctx.add_program_str("int", "2").unwrap();
            }
            if has(2) {
                return;
            }
            b.bind_func("idf", &idf_impl);
            if ictx == "f'{$}'" {
                return; // string(type) is not fixed
            }
            (format!("({}) == type(5)", ictx.replace('$', "int")), Ok(V::Bool(true)), format!("identifier int in `{}`: variable={} program={}", ictx, has(0), has(1)))
        }
        // call position, name `g`: bound function wins over macro; neither -> failure
        2 => {
            if has(0) {
                b.bind_func("g", &g_func);
            }
            if has(1) {
                b.bind_macro("g", &|_i, _t, _a| CelValue::String("macro".into()));
            }
            if has(2) {
                return;
            }
            let w = if has(0) { Ok(V::s("function")) } else if has(1) { Ok(V::s("macro")) } else { Err(()) };
            ("g(1)".into(), w, format!("call g(1): function={} macro={}", has(0), has(1)))
        }
        // call position, name `int`: function, then macro, then the type constructor
        3 => {
            if has(0) {
                b.bind_func("int", &g_func);
            }
            if has(1) {
                b.bind_macro("int", &|_i, _t, _a| CelValue::String("macro".into()));
            }
            if has(2) {
                return;
            }
            let w = if has(0) { Ok(V::s("function")) } else if has(1) { Ok(V::s("macro")) } else { Ok(V::Int(7)) };
            // the argument is a variable: a call with literal arguments is folded by the compiler with
            // the built-in tables (C09 assumes built-ins are not rebound by the caller)
            b.bind_param("s7", CelValue::String("7".into()));
            ("int(s7)".into(), w, format!("call int(s7): function={} macro={} (type constructor always present)", has(0), has(1)))
        }
        // member position: a map field wins over a method of the same name
        4 => {
            let mut m = BTreeMap::new();
            m.insert("other".to_string(), V::Int(0));
            if has(0) {
                m.insert("g".to_string(), V::Int(7));
            }
            b.bind_param("m", V::Map(m).to_cel());
            if has(1) {
                b.bind_func("g", &g_func);
            }
            if has(2) {
                // method call form: with the field present the field value is not callable
                let w = if has(0) { Err(()) } else if has(1) { Ok(V::s("function")) } else { Err(()) };
                ("m.g()".into(), w, format!("m.g(): field={} method={}", has(0), has(1)))
            } else {
                if !has(0) && has(1) {
                    return; // `m.g` without a call and without the field: a bound method value, not fixed
                }
                let w = if has(0) { Ok(V::Int(7)) } else { Err(()) };
                ("m.g".into(), w, format!("m.g: field={} method={}", has(0), has(1)))
            }
        }
        // replacement: rebinding a variable / re-adding a program takes effect for later executions
        _ => {
            // has(2): the first binding and the rebinding go through the JSON entry point
            let json_bind = |b: &mut BindContext, val: i64| {
                let mut o = serde_json::Map::new();
                o.insert("v".to_string(), json!(val));
                let _ = b.bind_params_from_json_obj(serde_json::Value::Object(o));
            };
            if has(2) {
                json_bind(&mut b, 1);
            } else {
                b.bind_param("v", CelValue::Int(1));
            }
            ctx.add_program_str("p", "10").unwrap();
            ctx.add_program_str("main", "v + p").unwrap();
            let first = real::exec_in(&mut ctx, "main", &b);
            acc.eval();
            if !matches!(first.value(), Some(V::Int(11))) {
                acc.violation("replacement before-rebinding wrong-value", json!({"src": "v + p", "v": 1, "p": "10"}), "11".into(), first.show());
            }
            let mut want = 11;
            if has(0) {
                // rebinding through the other entry point than the first binding, and through the same
                if has(2) {
                    b.bind_param("v", CelValue::Int(5));
                    json_bind(&mut b, 2);
                } else {
                    json_bind(&mut b, 5);
                    b.bind_param("v", CelValue::Int(2));
                }
                want += 1;
            }
            if has(1) {
                ctx.add_program_str("p", "20").unwrap();
                want += 10;
            }
            let got = real::exec_in(&mut ctx, "main", &b);
            acc.eval();
            acc.class(&got.class());
            acc.nontrivial(&idx);
            if !matches!(got.value(), Some(V::Int(x)) if x == want) {
                acc.violation(
                    &format!("replacement rebind={} readd={} json-first={} old-value-still-used", has(0), has(1), has(2)),
                    json!({"src": "v + p", "rebound_v_to_2": has(0), "readded_p_as_20": has(1)}),
                    format!("{}", want),
                    got.show(),
                );
            }
            return;
        }
    };
    let got = match real::guarded("compile", || ctx.add_program_str("main", &src)) {
        Ok(Ok(())) => real::exec_in(&mut ctx, "main", &b),
        Ok(Err(e)) => Outcome::CompileErr(real::ErrKind::of(&e), format!("{}", e)),
        Err(o) => o,
    };
    acc.eval();
    acc.class(&got.class());
    acc.nontrivial(&idx);
    let ok = match (&want, &got) {
        (_, Outcome::Panic { .. }) => false,
        (Err(()), Outcome::Fail(..)) => true,
        (Ok(v), o) => matches!(o.value(), Some(g) if g.same(v)),
        _ => false,
    };
    if !ok {
        acc.violation(&format!("collision {} wrong-resolution", what), json!({"src": src, "configuration": what}), format!("{:?}", want.as_ref().map(|v| v.show())), got.show());
    }
    if acc.wants_sample() {
        acc.sample(json!({"src": src, "configuration": what, "observed": got.show()}));
    }
}

// ---------------------------------------------------------------------------
// reference graphs

/// constructs 0..9 are the core set (used for 4-node graphs); 9.. are the remaining macro sites
const NCONS_ALL: usize = 18;
const NCONS_CORE: usize = 9;
const CONS_NAMES: [&str; NCONS_ALL] = [
    "bare", "arith", "macro-body", "macro-range", "call-arg", "has", "coalesce", "fstring", "ternary", "map-over-map-body", "filter-body",
    "filter-over-map-body", "all-body", "exists-body", "exists_one-body", "reduce-step", "reduce-seed", "map3-body",
];

fn edge_src(cons: usize, target: &str) -> String {
    match cons {
        0 => target.to_string(),
        1 => format!("{} + 1", target),
        2 => format!("[1].map(x, {})[0]", target),
        3 => format!("[{}].map(x, x)[0]", target),
        4 => format!("abs({})", target),
        5 => format!("has({}) ? 1 : 0", target),
        6 => format!("coalesce({}, 0)", target),
        7 => format!("int(f'{{{}}}')", target),
        8 => format!("true ? {} : 0", target),
        9 => format!("{{'a': 1}}.map(k, {})[0]", target),
        // every construct reads its target exactly once (a cycle must not fan out)
        10 => format!("[5].filter(x, {} > -100)[0]", target),
        11 => format!("size({{'a': 1}}.filter(k, {} > -100)) == 1u ? 1 : 0", target),
        12 => format!("[1].all(x, {} > -100) ? 1 : 0", target),
        13 => format!("[1].exists(x, {} > -100) ? 1 : 0", target),
        14 => format!("[1].exists_one(x, {} > -100) ? 1 : 0", target),
        15 => format!("[1].reduce(acc, x, acc + {}, 0)", target),
        16 => format!("[1].reduce(acc, x, acc, {})", target),
        _ => format!("[1].map(x, true, {})[0]", target),
    }
}
fn edge_val(cons: usize, v: i64) -> i64 {
    match cons {
        1 => v + 1,
        4 => v.abs(),
        5 | 11 | 12 | 13 | 14 => 1,
        10 => 5,
        _ => v,
    }
}

/// node description: 0 = leaf, else 1 + target * NCONS + construct
fn decode_node(code: u64, ncons: usize) -> Option<(usize, usize)> {
    if code == 0 {
        None
    } else {
        let c = code - 1;
        Some(((c / ncons as u64) as usize, (c % ncons as u64) as usize))
    }
}

pub struct Graphs {
    n: usize,
    ncons: usize,
}

/// quick: 3 programs x 9 core constructs and 2 programs x all 18; thorough: 3 x 18 and 4 x 9
fn graph_sets(t: Tier) -> (Graphs, Graphs) {
    match t {
        Tier::Quick => (Graphs { n: 3, ncons: NCONS_CORE }, Graphs { n: 2, ncons: NCONS_ALL }),
        Tier::Thorough => (Graphs { n: 3, ncons: NCONS_ALL }, Graphs { n: 4, ncons: NCONS_CORE }),
    }
}
impl Graphs {
    fn radix(&self) -> u64 {
        1 + (self.n * self.ncons) as u64
    }
    fn size(&self) -> u64 {
        self.radix().pow(self.n as u32)
    }
    fn nodes(&self, idx: u64) -> Vec<Option<(usize, usize)>> {
        unrank(idx, &vec![self.radix(); self.n]).into_iter().map(|c| decode_node(c, self.ncons)).collect()
    }
    /// Ok(value) for an acyclic walk from node 0, Err(()) when a cycle is reachable
    fn reference(&self, nodes: &[Option<(usize, usize)>]) -> Result<i64, ()> {
        fn val(i: usize, nodes: &[Option<(usize, usize)>], depth: usize) -> Result<i64, ()> {
            if depth > nodes.len() {
                return Err(());
            }
            match nodes[i] {
                None => Ok(1),
                Some((t, c)) => Ok(edge_val(c, val(t, nodes, depth + 1)?)),
            }
        }
        val(0, nodes, 0)
    }
    fn build(&self, nodes: &[Option<(usize, usize)>]) -> (CelContext, Vec<String>) {
        let mut ctx = CelContext::new();
        let mut srcs = Vec::new();
        for (i, nd) in nodes.iter().enumerate() {
            let src = match nd {
                None => "1".to_string(),
                Some((t, c)) => edge_src(*c, &format!("p{}", t)),
            };
            ctx.add_program_str(&format!("p{}", i), &src).expect("graph sources compile");
            srcs.push(format!("p{} := {}", i, src));
        }
        (ctx, srcs)
    }
    fn sig(&self, nodes: &[Option<(usize, usize)>], cyclic: bool) -> String {
        // the constructs on the path walked from p0 (bounded)
        let mut path = Vec::new();
        let mut i = 0;
        for _ in 0..=self.n {
            match nodes[i] {
                None => break,
                Some((t, c)) => {
                    path.push(CONS_NAMES[c]);
                    i = t;
                }
            }
        }
        path.sort();
        path.dedup();
        format!("{} through {}", if cyclic { "cycle" } else { "acyclic" }, path.join("+"))
    }
    /// acyclic graphs in-process
    fn run(&self, idx: u64, acc: &mut Acc) {
        let nodes = self.nodes(idx);
        let want = self.reference(&nodes);
        if want.is_err() {
            acc.count("graphs with a reachable cycle (run in child processes)", 1);
            return;
        }
        let (mut ctx, srcs) = self.build(&nodes);
        let b = BindContext::new();
        let got = real::exec_in(&mut ctx, "p0", &b);
        acc.eval();
        acc.class(&got.class());
        acc.nontrivial(&idx);
        let w = want.unwrap();
        if !matches!(got.value(), Some(V::Int(x)) if x == w) {
            acc.violation(&format!("graph {} wrong-value", self.sig(&nodes, false)), json!({"programs": srcs, "exec": "p0"}), format!("{}", w), got.show());
        }
        if acc.wants_sample() {
            acc.sample(json!({"programs": srcs, "exec": "p0", "expected": w, "observed": got.show()}));
        }
    }
}

// ---------------------------------------------------------------------------
// chains

fn chain_ctx(cons: usize, len: usize, loop_link: Option<(usize, usize)>) -> CelContext {
    let mut ctx = CelContext::new();
    ctx.add_program_str(&format!("c{}", len), "1").unwrap();
    for i in (0..len).rev() {
        let inner = edge_src(cons, &format!("c{}", i + 1));
        let src = match loop_link {
            // a loop inside this link: its iterations must not consume depth
            Some((at, 64)) if at == i => format!("l64.map(x, {})[63]", inner),
            Some((at, _)) if at == i => format!("[0].map(x, {})[0]", inner),
            _ => inner,
        };
        ctx.add_program_str(&format!("c{}", i), &src).unwrap();
    }
    ctx
}
fn chain_val(cons: usize, len: usize) -> i64 {
    let mut v = 1;
    for _ in 0..len {
        v = edge_val(cons, v);
    }
    v
}

// ---------------------------------------------------------------------------
// child-process worker: `rscel-mc C12 --worker <kind> <n-or-cons> <start> <end> <stack>`
// prints `B <k>` before and `E <k> <class>` after every case

pub fn worker(args: &[String]) -> i32 {
    isolate::limit_address_space(4 << 30);
    let kind = args.first().map(|s| s.as_str()).unwrap_or("");
    let a: Vec<u64> = args[1..].iter().filter_map(|s| s.parse().ok()).collect();
    if a.len() < 4 {
        return 2;
    }
    let (p, start, end, stack) = (a[0] as usize, a[1], a[2], a[3] as usize);
    let kind = kind.to_string();
    let body = move || {
        use std::io::Write;
        let out = std::io::stdout();
        for k in start..end {
            match kind.as_str() {
                "graphs" => {
                    // p encodes (nodes, constructs) as nodes * 100 + constructs
                    let g = Graphs { n: p / 100, ncons: p % 100 };
                    let nodes = g.nodes(k);
                    if g.reference(&nodes).is_ok() {
                        continue;
                    }
                    writeln!(out.lock(), "B {}", k).ok();
                    out.lock().flush().ok();
                    let (mut ctx, _) = g.build(&nodes);
                    let b = BindContext::new();
                    let got = real::exec_in(&mut ctx, "p0", &b);
                    writeln!(out.lock(), "E {} {}", k, got.class()).ok();
                }
                "fanout" => {
                    writeln!(out.lock(), "B {}", k).ok();
                    out.lock().flush().ok();
                    let mut ctx = rscel::CelContext::new();
                    for (name, src) in fanout_programs(k) {
                        let _ = ctx.add_program_str(&name, &src);
                    }
                    let b = BindContext::new();
                    let got = real::exec_in(&mut ctx, "a", &b);
                    writeln!(out.lock(), "E {} {}", k, got.class()).ok();
                }
                _ => {
                    // chains: k -> (len 1..=64, no loop | loop of 1 element | loop of 64 elements)
                    let len = (k / 3) as usize + 1;
                    let with_loop = k % 3;
                    writeln!(out.lock(), "B {}", k).ok();
                    out.lock().flush().ok();
                    let mut ctx = chain_ctx(p, len, match with_loop {
                        0 => None,
                        1 => Some((len / 2, 1)),
                        _ => Some((len / 2, 64)),
                    });
                    let mut b = BindContext::new();
                    b.bind_param("l64", CelValue::List((0..64).map(CelValue::Int).collect()));
                    let got = real::exec_in(&mut ctx, "c0", &b);
                    let shown = match got.value() {
                        Some(V::Int(i)) => format!("value:{}", i),
                        _ => got.class(),
                    };
                    writeln!(out.lock(), "E {} {}", k, shown).ok();
                }
            }
        }
        0
    };
    if stack == 0 {
        body()
    } else {
        isolate::on_stack(Some(stack), body)
    }
}

struct ChildCase {
    k: u64,
    /// None = the child died in this case
    result: Option<String>,
    died: Option<String>,
}

/// run [start, end) in child processes, restarting after a death
fn run_in_children(bin: &str, kind: &str, p: usize, start: u64, end: u64, stack: usize) -> Vec<ChildCase> {
    run_in_children_within(bin, kind, p, start, end, stack, 600)
}

/// `budget_s`: processor seconds one child may consume before it counts as a hang
fn run_in_children_within(bin: &str, kind: &str, p: usize, start: u64, end: u64, stack: usize, budget_s: u64) -> Vec<ChildCase> {
    let mut out = Vec::new();
    let mut from = start;
    while from < end {
        let args: Vec<String> = vec!["C12".into(), "--worker".into(), kind.into(), p.to_string(), from.to_string(), end.to_string(), stack.to_string()];
        let r = run_child_keep_output(bin, &args, Duration::from_secs(budget_s));
        let (text, death) = match r {
            (t, None) => (t, None),
            (t, Some(d)) => (t, Some(d)),
        };
        let mut open: Option<u64> = None;
        for line in text.lines() {
            let mut it = line.split_whitespace();
            match (it.next(), it.next().and_then(|s| s.parse::<u64>().ok())) {
                (Some("B"), Some(k)) => open = Some(k),
                (Some("E"), Some(k)) => {
                    out.push(ChildCase { k, result: Some(it.collect::<Vec<_>>().join(" ")), died: None });
                    open = None;
                }
                _ => {}
            }
        }
        match (death, open) {
            (Some(d), Some(k)) => {
                out.push(ChildCase { k, result: None, died: Some(d) });
                from = k + 1;
            }
            (Some(d), None) => {
                // died outside a case: machinery problem, report on the first index
                out.push(ChildCase { k: from, result: None, died: Some(format!("outside a case: {}", d)) });
                break;
            }
            (None, _) => break,
        }
    }
    out
}

/// like isolate::run_child but keeps the partial stdout of a child that died
fn run_child_keep_output(bin: &str, args: &[String], timeout: Duration) -> (String, Option<String>) {
    use std::io::Read;
    use std::process::{Command, Stdio};
    let mut child = match Command::new(bin).args(args).stdin(Stdio::null()).stdout(Stdio::piped()).stderr(Stdio::null()).spawn() {
        Ok(c) => c,
        Err(e) => return (String::new(), Some(format!("spawn error {}", e))),
    };
    let mut so = child.stdout.take().unwrap();
    let reader = std::thread::spawn(move || {
        let mut s = String::new();
        let _ = so.read_to_string(&mut s);
        s
    });
    let start = std::time::Instant::now();
    let status = loop {
        match child.try_wait() {
            Ok(Some(st)) => break Some(st),
            Ok(None) => {
                if isolate::is_hang(child.id(), start, timeout) {
                    let _ = child.kill();
                    let _ = child.wait();
                    break None;
                }
                std::thread::sleep(Duration::from_millis(5));
            }
            Err(_) => break None,
        }
    };
    let text = reader.join().unwrap_or_default();
    use std::os::unix::process::ExitStatusExt;
    let death = match status {
        None => Some("hang (killed after the processor-time limit)".to_string()),
        Some(st) => {
            if let Some(sig) = st.signal() {
                Some(format!("killed by signal {}", sig))
            } else if st.code() != Some(0) {
                Some(format!("exit code {:?}", st.code()))
            } else {
                None
            }
        }
    };
    (text, death)
}

fn profiles() -> Vec<(&'static str, String)> {
    let mut v = Vec::new();
    if let Some(b) = isolate::self_bin("VERIF_SELF_BIN") {
        v.push(("checked", b));
    }
    if let Some(b) = isolate::self_bin("VERIF_DEV_BIN") {
        v.push(("dev", b));
    }
    v
}

fn cyclic_family_name(g: &Graphs) -> String {
    format!("cyclic-graphs-{}x{}", g.n, g.ncons)
}

fn run_cyclic_graphs(g: &Graphs, rep: &mut Report) {
    if profiles().is_empty() {
        rep.caps.push("no child binaries available: cyclic graphs not executed".into());
        return;
    }
    let mut acc = Acc::default();
    acc.family = cyclic_family_name(g);
    cyclic_range(g, 0, g.size(), &mut acc);
    rep.family_sizes.push((cyclic_family_name(g), acc.evaluations));
    rep.acc.merge(acc);
}

/// the graphs with a reachable cycle among the indices [from, to), each in child processes
fn cyclic_range(g: &Graphs, from: u64, to: u64, acc: &mut Acc) {
    let profs = profiles();
    let total = to - from;
    let nw = (workers() as u64).min(total.max(1));
    let chunk = (total + nw - 1) / nw;
    for (pname, bin) in &profs {
        for (sname, stack) in [("main-8MiB", 0usize), ("thread-2MiB", 2 << 20)] {
            let results: Vec<Vec<ChildCase>> = std::thread::scope(|s| {
                let hs: Vec<_> = (0..nw)
                    .map(|w| {
                        let bin = bin.clone();
                        s.spawn(move || run_in_children(&bin, "graphs", g.n * 100 + g.ncons, from + w * chunk, (from + (w + 1) * chunk).min(to), stack))
                    })
                    .collect();
                hs.into_iter().map(|h| h.join().unwrap()).collect()
            });
            for cases in results {
                for c in cases {
                    acc.index = c.k;
                    acc.eval();
                    let nodes = g.nodes(c.k);
                    let (_, srcs) = g.build(&nodes);
                    let sig = g.sig(&nodes, true);
                    acc.nontrivial(&(g.n, g.ncons, c.k, *pname, sname));
                    match (&c.result, &c.died) {
                        (Some(r), _) => {
                            acc.class(r);
                            if !r.starts_with("fail:") {
                                acc.violation(
                                    &format!("graph {} not-an-error [{} {}]", sig, pname, sname),
                                    json!({"programs": srcs, "exec": "p0", "profile": pname, "stack": sname}),
                                    "an error (the reference chain is cyclic)".into(),
                                    r.clone(),
                                );
                            }
                        }
                        (None, Some(d)) => {
                            acc.class("abort");
                            acc.violation(
                                &format!("graph {} aborts-process [{} {}]", sig, pname, sname),
                                json!({"programs": srcs, "exec": "p0", "profile": pname, "stack": sname}),
                                "an error, never an abort".into(),
                                d.clone(),
                            );
                        }
                        _ => {}
                    }
                    if acc.wants_sample() {
                        acc.sample(json!({"programs": srcs, "exec": "p0", "profile": pname, "stack": sname, "observed": c.result}));
                    }
                }
            }
        }
    }
}

// ---------------------------------------------------------------------------
// cycles that fan out: every program reads the cycle twice. The depth error must end the whole
// evaluation at once; if it were absorbed into a value the evaluation would visit 2^32 nodes.

const FANOUT_SHAPES: u64 = 3;

fn fanout_programs(k: u64) -> Vec<(String, String)> {
    let cons = (k / FANOUT_SHAPES) as usize;
    match k % FANOUT_SHAPES {
        0 => vec![("a".into(), format!("({}) + ({})", edge_src(cons, "a"), edge_src(cons, "a")))],
        1 => vec![
            ("a".into(), format!("({}) + ({})", edge_src(cons, "b"), edge_src(cons, "b"))),
            ("b".into(), format!("({}) + 1", edge_src(cons, "a"))),
        ],
        _ => vec![("a".into(), format!("[{}, {}][0]", edge_src(cons, "a"), edge_src(cons, "a")))],
    }
}

fn fanout_size() -> u64 {
    NCONS_ALL as u64 * FANOUT_SHAPES
}

fn fanout_range(from: u64, to: u64, acc: &mut Acc) {
    let profs = profiles();
    for (pname, bin) in &profs {
        let cases: Vec<ChildCase> = std::thread::scope(|s| {
            let hs: Vec<_> = (from..to)
                .map(|k| {
                    let bin = bin.clone();
                    s.spawn(move || run_in_children_within(&bin, "fanout", 0, k, k + 1, 0, 90))
                })
                .collect();
            hs.into_iter().flat_map(|h| h.join().unwrap()).collect()
        });
        for c in cases {
            acc.index = c.k;
            acc.eval();
            acc.nontrivial(&("fanout", c.k, *pname));
            let cons = CONS_NAMES[(c.k / FANOUT_SHAPES) as usize];
            let shape = ["self-loop read twice", "two-cycle read twice", "self-loop read twice in a list"][(c.k % FANOUT_SHAPES) as usize];
            let case = json!({"programs": fanout_programs(c.k), "exec": "a", "profile": pname});
            match (&c.result, &c.died) {
                (Some(r), _) => {
                    acc.class(r);
                    if !r.starts_with("fail:") && c.k % FANOUT_SHAPES != 2 {
                        acc.violation(&format!("fan-out cycle through {} ({}) not-an-error [{}]", cons, shape, pname), case, "an error (the reference chain is cyclic)".into(), r.clone());
                    }
                }
                (None, Some(d)) => {
                    acc.class("abort-or-hang");
                    acc.violation(
                        &format!("fan-out cycle through {} ({}) does-not-return [{}]", cons, shape, pname),
                        case,
                        "an error within 90 s of processor time (on the unchanged tree: milliseconds)".into(),
                        d.clone(),
                    );
                }
                _ => {}
            }
            if acc.wants_sample() {
                acc.sample(json!({"programs": fanout_programs(c.k), "observed": c.result}));
            }
        }
    }
}

fn run_fanout(rep: &mut Report) {
    if profiles().is_empty() {
        rep.caps.push("no child binaries available: fan-out cycles not executed".into());
        return;
    }
    let mut acc = Acc::default();
    acc.family = "fanout-cycles".into();
    fanout_range(0, fanout_size(), &mut acc);
    rep.family_sizes.push(("fanout-cycles".into(), acc.evaluations));
    rep.acc.merge(acc);
}

fn run_chains(rep: &mut Report) {
    if profiles().is_empty() {
        rep.caps.push("no child binaries available: chains not executed".into());
        return;
    }
    let mut acc = Acc::default();
    acc.family = "chains".into();
    chains_of(&(0..NCONS_ALL).collect::<Vec<_>>(), &mut acc);
    rep.family_sizes.push(("chains".into(), acc.evaluations));
    rep.acc.merge(acc);
}

/// all chains (length 1..64 x 3 loop variants) through the given constructs, in child processes
fn chains_of(constructs: &[usize], acc: &mut Acc) {
    let profs = profiles();
    for (pname, bin) in &profs {
        for (sname, stack) in [("main-8MiB", 0usize), ("thread-2MiB", 2 << 20)] {
            let results: Vec<(usize, Vec<ChildCase>)> = std::thread::scope(|s| {
                let hs: Vec<_> = constructs
                    .iter()
                    .cloned()
                    .map(|cons| {
                        let bin = bin.clone();
                        s.spawn(move || (cons, run_in_children(&bin, "chains", cons, 0, 192, stack)))
                    })
                    .collect();
                hs.into_iter().map(|h| h.join().unwrap()).collect()
            });
            for (cons, cases) in results {
                // outcome class of the chain with a one-element loop per length, to compare with 64 elements
                let mut plain: BTreeMap<usize, String> = BTreeMap::new();
                for c in &cases {
                    let len = (c.k / 3) as usize + 1;
                    let with_loop = c.k % 3;
                    acc.index = (cons as u64) << 16 | c.k;
                    acc.eval();
                    acc.nontrivial(&(cons, c.k, *pname, sname));
                        let loop_desc = ["none", "1 element", "64 elements"][with_loop as usize];
                    let case = json!({"construct": CONS_NAMES[cons], "length": len, "loop_inside_the_middle_link": loop_desc, "profile": pname, "stack": sname});
                    let want = chain_val(cons, len);
                    // 16 programs (15 links) through every single referencing construct; the two edges
                    // that stack two constructs per link (a call around an f-string, a call around a
                    // macro body) have no floor of their own in the statement
                    let must_work = with_loop == 0
                        && match cons {
                            0 | 1 => len <= 16,
                            7 | 11 => len <= 4,
                            _ => len <= 15,
                        };
                    match (&c.result, &c.died) {
                        (None, Some(d)) => {
                            acc.class("abort");
                            acc.violation(
                                &format!("chain through {} aborts-process [{} {}]", CONS_NAMES[cons], pname, sname),
                                case,
                                "the value or an error, never an abort".into(),
                                d.clone(),
                            );
                        }
                        (Some(r), _) => {
                            acc.class(if r.starts_with("value:") { "value" } else { r.as_str() });
                            let is_val = r == &format!("value:{}", want);
                            let is_fail = r.starts_with("fail:");
                            if !is_val && !(is_fail && !must_work) {
                                acc.violation(
                                    &format!("chain through {} {} [{}]", CONS_NAMES[cons], if must_work { "short-chain-does-not-evaluate" } else { "wrong-value" }, pname),
                                    case.clone(),
                                    if must_work { format!("value:{}", want) } else { format!("value:{} or an error", want) },
                                    r.clone(),
                                );
                            }
                            let class = if is_val { "value".to_string() } else { r.clone() };
                            if with_loop == 2 {
                                if let Some(p) = plain.get(&len) {
                                    let pc = if p.starts_with("value:") { "value" } else { "fail" };
                                    let lc = if class == "value" { "value" } else { "fail" };
                                    if pc != lc {
                                        acc.violation(
                                            &format!("chain through {} loop-iterations-consume-depth [{}]", CONS_NAMES[cons], pname),
                                            case,
                                            format!("the same outcome class as with a loop of one element ({})", p),
                                            r.clone(),
                                        );
                                    }
                                }
                            } else if with_loop == 1 {
                                plain.insert(len, r.clone());
                            }
                        }
                        _ => {}
                    }
                }
            }
        }
    }
}

// ---------------------------------------------------------------------------
// JSON

fn json_atoms() -> Vec<(serde_json::Value, V)> {
    vec![
        (json!(0), V::Int(0)),
        (json!(-1), V::Int(-1)),
        (json!(9223372036854775808u64), V::UInt(1 << 63)),
        (json!(1.5), V::Dbl(1.5)),
        (json!("s"), V::s("s")),
        (json!(true), V::Bool(true)),
        (serde_json::Value::Null, V::Null),
        (json!([]), V::list(&[])),
        (json!({}), V::map(&[])),
    ]
}

fn json_values() -> Vec<(serde_json::Value, V)> {
    let atoms = json_atoms();
    let mut out = atoms.clone();
    // depth 1 and 2: lists of 1..2 elements and maps with 1..2 keys over the previous level
    let mut prev = atoms.clone();
    for _ in 0..2 {
        let mut next = Vec::new();
        for (j, v) in &prev {
            next.push((json!([j]), V::list(&[v.clone()])));
            next.push((json!({"k": j}), V::map(&[("k", v.clone())])));
        }
        for (j1, v1) in prev.iter().take(9) {
            for (j2, v2) in prev.iter().take(9) {
                next.push((json!([j1, j2]), V::list(&[v1.clone(), v2.clone()])));
                next.push((json!({"a": j1, "b": j2}), V::map(&[("a", v1.clone()), ("b", v2.clone())])));
            }
        }
        out.extend(next.iter().cloned());
        prev = next;
    }
    out
}

pub struct Jsons {
    vals: Vec<(serde_json::Value, V)>,
}
impl Jsons {
    fn run(&self, idx: u64, acc: &mut Acc) {
        let (j, v) = &self.vals[idx as usize];
        let mut b = BindContext::new();
        let mut o = serde_json::Map::new();
        o.insert("j".to_string(), j.clone());
        if let Err(e) = b.bind_params_from_json_obj(serde_json::Value::Object(o)) {
            acc.violation("json bind-failed", json!({"json": j}), "binds".into(), format!("{}", e));
            return;
        }
        b.bind_param("d", v.to_cel());
        acc.eval();
        acc.nontrivial(&idx);
        let got = b.get_param("j").and_then(V::from_cel);
        let same = matches!(&got, Some(g) if g.same(v));
        if !same {
            acc.violation(
                &format!("json {} bound-value-differs", v.type_name()),
                json!({"json": j}),
                v.show(),
                format!("{:?}", got.map(|g| g.show())),
            );
        }
        for src in ["j == d", "[j] == [d]", "type(j) == type(d)"] {
            let r = real::eval_with(src, &b);
            acc.eval();
            acc.class(&r.class());
            if !matches!(r.value(), Some(V::Bool(true))) {
                acc.violation(&format!("json {} `{}` not-true", v.type_name(), src), json!({"json": j, "src": src}), "true".into(), r.show());
            }
        }
        if acc.wants_sample() {
            acc.sample(json!({"json": j, "expected": v.show()}));
        }
    }
}

// ---------------------------------------------------------------------------
// a map field wins over a method (function or macro) of the same name: every name of the tables

fn field_names() -> Vec<String> {
    crate::props::c01::builtin_names().unwrap_or_default()
}

fn run_field_vs_builtin(idx: u64, acc: &mut Acc) {
    let names = field_names();
    let name = &names[idx as usize];
    acc.nontrivial(&("field", name.clone()));
    let mut h = HashMap::new();
    h.insert(name.clone(), CelValue::Int(7));
    h.insert("other".to_string(), CelValue::Int(8));
    let mut bound = BindContext::new();
    bound.bind_param("m", CelValue::Map(h));
    let mut from_json = BindContext::new();
    let _ = from_json.bind_params_from_json_obj(json!({"m": {name.as_str(): 7, "other": 8}}));
    let lit = format!("{{'{}': 7, 'other': 8}}", name);
    let cases: Vec<(String, &str, V, &BindContext)> = vec![
        (format!("m.{}", name), "bound map", V::Int(7), &bound),
        (format!("m.{}", name), "map bound from JSON", V::Int(7), &from_json),
        (format!("{}.{}", lit, name), "map literal", V::Int(7), &bound),
        (format!("{{'{}': other7}}.{}", name, name), "map literal with a variable value", V::Int(7), &bound),
        (format!("has(m.{})", name), "has on a bound map", V::Bool(true), &bound),
        (format!("coalesce(m.{}, 0)", name), "coalesce on a bound map", V::Int(7), &bound),
        (format!("[m].map(e, e.{})[0]", name), "through a loop variable", V::Int(7), &bound),
        (format!("m.{} + m.other", name), "next to another field", V::Int(15), &bound),
    ];
    let mut with_var = bound.clone();
    with_var.bind_param("other7", CelValue::Int(7));
    for (src, how, want, b) in cases {
        let b = if src.contains("other7") { &with_var } else { b };
        let got = real::eval_with(&src, b);
        acc.eval();
        acc.class(&got.class());
        if !got.value().map(|g| g.same(&want)).unwrap_or(false) {
            acc.violation(
                &format!("field named like a built-in is not read as a field ({})", how),
                json!({"src": src, "field": name, "m": format!("{{'{}': 7, 'other': 8}}", name)}),
                want.show(),
                got.show(),
            );
        }
    }
    if acc.wants_sample() {
        acc.sample(json!({"field": name}));
    }
}

// ---------------------------------------------------------------------------
// a stored program is evaluated under the bindings of the place that reads it, every time

const READ_TWICE: [(&str, &str); 8] = [
    // (main program, expected value as CEL text evaluated with x = 5)
    ("[p] + [1, 2, 3].map(x, p)", "[50, 10, 20, 30]"),
    ("[1, 2].map(x, p) + [p]", "[10, 20, 50]"),
    ("p + [7].map(x, p)[0] + p", "170"),
    ("[p, [1, 2].filter(x, p > 10), p]", "[50, [2], 50]"),
    ("[1, 2].map(x, [p, [3].map(x, p)[0]])", "[[10, 30], [20, 30]]"),
    ("[p, [4].reduce(acc, x, acc + p, 0), p]", "[50, 40, 50]"),
    ("[1, 2].all(x, p == x * 10) && p == 50", "true"),
    ("coalesce(p, 0) + [1].map(x, coalesce(p, 0))[0]", "60"),
];

fn run_read_twice(idx: u64, acc: &mut Acc) {
    let (main, want_src) = READ_TWICE[idx as usize];
    let mut ctx = CelContext::new();
    let _ = ctx.add_program_str("p", "x * 10");
    let _ = ctx.add_program_str("main", main);
    let mut b = BindContext::new();
    b.bind_param("x", CelValue::Int(5));
    acc.nontrivial(&("read-twice", idx));
    let want = real::eval(want_src, &[]);
    for rep in 0..2 {
        let got = real::exec_in(&mut ctx, "main", &b);
        acc.eval();
        acc.class(&got.class());
        if !want.agrees(&got) {
            acc.violation(
                "a program read outside and inside a macro body is not evaluated under each place's bindings",
                json!({"p": "x * 10", "main": main, "x": 5, "repetition": rep}),
                want.show(),
                got.show(),
            );
        }
    }
}

// ---------------------------------------------------------------------------
// failures that were absorbed do not use up the depth budget of what follows

fn run_after_absorbed(idx: u64, acc: &mut Acc) {
    // idx -> (how the failing reference is absorbed, how often, length of the chain that follows)
    let absorbers = ["coalesce(q1, 0)", "(has(q1) ? 1 : 0)", "((has(cyc) || true) ? 0 : 1)", "((coalesce(cyc, 0) == 0 || true) ? 0 : 1)", "((size(cyc) == 1u || true) ? 0 : 1)"];
    let d = unrank(idx, &[absorbers.len() as u64, 4, 3]);
    let (ab, times, len) = (absorbers[d[0] as usize], d[1] as usize + 1, [2usize, 8, 16][d[2] as usize]);
    let mut ctx = CelContext::new();
    let _ = ctx.add_program_str("q1", "q2 + 1");
    let _ = ctx.add_program_str("q2", "q3 + 1");
    let _ = ctx.add_program_str("q3", "nothing + 1");
    let _ = ctx.add_program_str("cyc", "cyc + 1");
    let _ = ctx.add_program_str(&format!("c{}", len), "1");
    for i in (0..len).rev() {
        let _ = ctx.add_program_str(&format!("c{}", i), &format!("c{} + 1", i + 1));
    }
    let main = format!("{} + c0", vec![ab; times].join(" + "));
    let _ = ctx.add_program_str("main", &main);
    let b = BindContext::new();
    acc.nontrivial(&("after-absorbed", idx));
    // the same sum with the chain first: absorbing afterwards cannot matter
    let _ = ctx.add_program_str("reference", &format!("c0 + {}", vec![ab; times].join(" + ")));
    let want = real::exec_in(&mut ctx, "reference", &b);
    let got = real::exec_in(&mut ctx, "main", &b);
    acc.evals(2);
    acc.class(&got.class());
    if !want.agrees(&got) || !got.is_value() {
        acc.violation(
            &format!("a chain of {} programs fails after {} absorbed failure(s)", len + 1, if times == 1 { "one" } else { "several" }),
            json!({"main": main, "q1": "q2 + 1", "q2": "q3 + 1", "q3": "nothing + 1", "cyc": "cyc + 1", "chain": format!("c0 .. c{} (ci := c(i+1) + 1)", len)}),
            format!("as with the chain evaluated first: {}", want.show()),
            got.show(),
        );
    }
}

pub fn replay_families(t: Tier) -> Vec<Family<'static>> {
    let (g, g4) = graph_sets(t);
    let g: &'static Graphs = Box::leak(Box::new(g));
    let g4: &'static Graphs = Box::leak(Box::new(g4));
    let j: &'static Jsons = Box::leak(Box::new(Jsons { vals: json_values() }));
    vec![
        Family::new("collisions", 6 * 8 * IDENT_CTX.len() as u64, run_collision),
        Family::new("fields-named-like-built-ins", field_names().len() as u64, run_field_vs_builtin),
        Family::new("read-outside-and-inside-a-macro", READ_TWICE.len() as u64, run_read_twice),
        Family::new("chains-after-absorbed-failures", 5 * 4 * 3, run_after_absorbed),
        Family::new("acyclic-graphs", g.size(), move |i, a| g.run(i, a)),
        Family::new("acyclic-graphs-b", g4.size(), move |i, a| g4.run(i, a)),
        Family::new("json", j.vals.len() as u64, move |i, a| j.run(i, a)),
        // child-process families: one case (graphs) / all chains through one construct
        Family::new(&cyclic_family_name(g), g.size(), move |i, a| cyclic_range(g, i, i + 1, a)),
        Family::new(&cyclic_family_name(g4), g4.size(), move |i, a| cyclic_range(g4, i, i + 1, a)),
        Family::new("chains", (NCONS_ALL as u64) << 16, move |i, a| chains_of(&[(i >> 16) as usize], a)),
        Family::new("fanout-cycles", fanout_size(), move |i, a| fanout_range(i, i + 1, a)),
    ]
}

pub fn run(t: Tier) -> i32 {
    let mut rep = Report::new(ID, t, "model_checking");
    let (g, g4) = graph_sets(t);
    let j = Jsons { vals: json_values() };
    rep.rule = format!(
        "collisions: every subset of {{variable, stored program}} behind identifiers v and int (a type name) in 8 contexts (bare, list element, function argument, macro body, ?: branch, map value, coalesce, f-string), of {{bound function, macro}} in call position for g and int (a type constructor), field vs method for m.g and m.g(), and rebinding/re-adding through bind_param and through the JSON entry point in both orders; fields-named-like-built-ins: for every name of the function, macro and type tables a map holding a field of that name, bound directly, bound from JSON, written as a literal and reached through a loop variable: m.name, has(m.name) and coalesce(m.name, 0) read the field; read-outside-and-inside-a-macro: 8 programs that read the stored program p := x * 10 both outside a macro and inside one whose loop variable is x (map, filter, reduce, all, nested, through coalesce): every reading sees the bindings of its place; chains-after-absorbed-failures: a failing reference (an unbound name three programs deep, or a cycle) absorbed 1..4 times by coalesce, has, or has/coalesce/a call argument under || true, followed by a chain of 3, 9 or 17 programs: same value as with the chain evaluated first; graphs: ALL {} reference graphs on {} named programs (quick: 3 programs x the 9 core constructs plus 2 programs x all 18; thorough: 3 x 18 plus 4 x 9) with out-degree <= 1 where every edge goes through one of 18 referencing constructs (bare identifier, arithmetic operand, call argument, has, coalesce, f-string, ?: branch, and every macro site: map body over a list and over a map, map range, map/3, filter over a list and over a map, all, exists, exists_one, reduce step and seed): acyclic from p0 -> value by substitution (in-process), a cycle reachable from p0 -> an error, each run in child processes in two build profiles on an 8 MiB main stack and a 2 MiB thread stack: never an abort; chains: length 1..64 through each of the 18 constructs, without a loop and with a 1-element and a 64-element macro loop inside the middle link, same child set-up: correct value up to 16 links (bare, arithmetic), 15 links = 16 programs (every other single construct) and 4 links (the two edges that stack two constructs), value or error beyond, never an abort, 64 iterations give the same outcome class as one; fanout-cycles: for each of the 18 constructs a self-loop and a two-cycle whose program reads the cycle twice (and a self-loop read twice inside a list): the evaluation returns an error within 90 s of processor time in both profiles (absorbing the depth error into a value would make it visit 2^32 nodes); json: {} JSON values of depth <= 2 over 9 atoms bound from JSON vs bound directly (structural equality, ==, inside a list, type). Non-trivial = every case",
        g.size() + g4.size(),
        format!("{} resp. {}", g.n, g4.n),
        j.vals.len()
    );
    rep.run_family(Family::new("collisions", 6 * 8 * IDENT_CTX.len() as u64, run_collision));
    rep.run_family(Family::new("fields-named-like-built-ins", field_names().len() as u64, run_field_vs_builtin));
    rep.run_family(Family::new("read-outside-and-inside-a-macro", READ_TWICE.len() as u64, run_read_twice));
    rep.run_family(Family::new("chains-after-absorbed-failures", 5 * 4 * 3, run_after_absorbed));
    rep.run_family(Family::new("acyclic-graphs", g.size(), |i, a| g.run(i, a)));
    run_cyclic_graphs(&g, &mut rep);
    let mut total_graphs = g.size();
    rep.run_family(Family::new("acyclic-graphs-b", g4.size(), |i, a| g4.run(i, a)));
    run_cyclic_graphs(&g4, &mut rep);
    total_graphs += g4.size();
    run_chains(&mut rep);
    run_fanout(&mut rep);
    rep.run_family(Family::new("json", j.vals.len() as u64, |i, a| j.run(i, a)));
    let cyc = rep.acc.counters.get("graphs with a reachable cycle (run in child processes)").cloned().unwrap_or(0);
    rep.set("states", json!(total_graphs));
    rep.set("transitions", json!(total_graphs * 3));
    rep.set("traces_validated_against_impl", json!(rep.acc.evaluations));
    rep.set("graphs_with_reachable_cycle", json!(cyc));
    rep.assumptions = vec![
        "child processes: RLIMIT_AS 4 GiB; a case is an abort when the child dies between its begin and end markers".into(),
        "`m.g` without a call when only a method g exists yields a bound-method value: not fixed by the statement".into(),
    ];
    rep.finish()
}
