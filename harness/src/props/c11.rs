//! C11 — evaluation is a pure, deterministic function of program text and bindings.
//!
//! Explicit-state exploration over operation histories. The model state is
//! (two contexts: name -> source; two binding sets: variable -> value); every transition is
//! executed on the REAL objects (rebuilt by replaying the history, the way stateless model
//! checkers re-derive a state), and after every history the real objects are compared with the
//! model and with freshly built objects holding the same abstract state.
use crate::engine::*;
use crate::real::{self, Outcome};
use rscel::{BindContext, CelContext, CelValue, Program};
use serde_json::json;
use std::cell::RefCell;
use std::collections::{BTreeMap, BTreeSet, HashMap};
use std::sync::Mutex;

pub const ID: &str = "C11";

const SRC: [&str; 17] = [
    "v + 1",
    "q",
    "[1, 2].map(v, v + w)",
    "{'a': 1, 'b': 2, 'c': 3, 'd': 4}.map(k, k)",
    "v",
    "[v, w].map(w, w) + [q]",
    // refers to itself: every execution ends at the depth limit
    "m + 1",
    // keys that differ only in case, map built at run time
    "{'k': v, 'K': 2, 'Kk': 3, 'kK': 4}.filter(x, true)",
    // two texts that differ only in blanks inside a literal
    "size('a  b') + v",
    "size('a b') + v",
    // a map comparison with one differing entry and one failing entry (u is never bound)
    "{'a': v, 'b': w, 'c': u} == {'a': 7, 'b': 10, 'c': 3}",
    // programs without any identifier (their value could be remembered), and readers of one: as a
    // plain operand and inside a call the compiler folds when its arguments are constant
    "7",
    "[3, 9, 4]",
    "[q, q]",
    "size([q, [q]]) + max(5, size(string(q)))",
    // a conversion of the variable (an empty text is no instant), a program that reads `q` through
    // another program's failure, and one that tells 1 from 1.0
    "timestamp(v)",
    "[type(v), v / 2]",
];
const PROGS: [&str; 3] = ["m", "q", "r"];
const VARS: [&str; 2] = ["v", "w"];

fn value(id: u8) -> CelValue {
    match id {
        0 => CelValue::Int(1),
        1 => CelValue::String("x".into()),
        2 => CelValue::Int(10),
        // equal to the int 1 under `==`, but another value
        4 => CelValue::Float(1.0),
        5 => CelValue::String(String::new()),
        _ => CelValue::Int(2),
    }
}

#[derive(Clone, Copy, Debug, PartialEq, Eq, Hash, PartialOrd, Ord)]
pub enum Op {
    /// add or replace program `p` of context `c` with source `s`
    Add(u8, u8, u8),
    /// bind or rebind variable of binding set `b`
    Bind(u8, u8, u8),
    /// context 1 := clone of context 0
    CloneCtx,
    /// binding set 1 := clone of binding set 0
    CloneBind,
    Exec(u8, u8, u8),
    Details(u8, u8),
}

pub const OPS: [Op; 29] = [
    Op::Add(0, 0, 0),
    Op::Add(0, 0, 1),
    Op::Add(0, 1, 2),
    Op::Add(0, 1, 3),
    Op::Add(1, 0, 5),
    Op::Add(1, 1, 4),
    Op::Add(0, 0, 6),
    Op::Add(0, 2, 7),
    Op::Add(0, 2, 8),
    Op::Add(1, 2, 9),
    Op::Add(0, 1, 10),
    Op::Add(0, 1, 11),
    Op::Add(1, 1, 12),
    Op::Add(0, 0, 13),
    Op::Add(0, 0, 14),
    Op::Add(0, 2, 15),
    Op::Add(0, 2, 16),
    Op::Bind(0, 0, 4),
    Op::Bind(0, 0, 5),
    Op::Bind(0, 0, 0),
    Op::Bind(0, 0, 1),
    Op::Bind(0, 1, 2),
    Op::Bind(1, 0, 3),
    Op::CloneCtx,
    Op::CloneBind,
    Op::Exec(0, 0, 0),
    Op::Exec(1, 0, 1),
    Op::Exec(0, 1, 1),
    Op::Details(0, 0),
];

impl Op {
    fn show(&self) -> String {
        match self {
            Op::Add(c, p, s) => format!("add(c{}, {}, `{}`)", c, PROGS[*p as usize], SRC[*s as usize]),
            Op::Bind(b, v, x) => format!("bind(b{}, {}, {:?})", b, VARS[*v as usize], value(*x)),
            Op::CloneCtx => "c1 = c0.clone()".into(),
            Op::CloneBind => "b1 = b0.clone()".into(),
            Op::Exec(c, p, b) => format!("exec(c{}, {}, b{})", c, PROGS[*p as usize], b),
            Op::Details(c, p) => format!("details(c{}, {})", c, PROGS[*p as usize]),
        }
    }
}

#[derive(Clone, Debug, Default, PartialEq, Eq, Hash, PartialOrd, Ord)]
pub struct Abs {
    ctx: [BTreeMap<u8, u8>; 2],
    bind: [BTreeMap<u8, u8>; 2],
}

impl Abs {
    fn apply(&mut self, op: Op) {
        match op {
            Op::Add(c, p, s) => {
                self.ctx[c as usize].insert(p, s);
            }
            Op::Bind(b, v, x) => {
                self.bind[b as usize].insert(v, x);
            }
            Op::CloneCtx => self.ctx[1] = self.ctx[0].clone(),
            Op::CloneBind => self.bind[1] = self.bind[0].clone(),
            Op::Exec(..) | Op::Details(..) => {}
        }
    }
}

struct Real<'a> {
    ctx: [CelContext; 2],
    bind: [BindContext<'a>; 2],
}

impl<'a> Real<'a> {
    fn new() -> Real<'a> {
        Real { ctx: [CelContext::new(), CelContext::new()], bind: [BindContext::new(), BindContext::new()] }
    }
    fn apply(&mut self, op: Op) -> Option<Outcome> {
        match op {
            Op::Add(c, p, s) => {
                let r = self.ctx[c as usize].add_program_str(PROGS[p as usize], SRC[s as usize]);
                assert!(r.is_ok(), "fixed sources compile");
                None
            }
            Op::Bind(b, v, x) => {
                self.bind[b as usize].bind_param(VARS[v as usize], value(x));
                None
            }
            Op::CloneCtx => {
                self.ctx[1] = self.ctx[0].clone();
                None
            }
            Op::CloneBind => {
                self.bind[1] = self.bind[0].clone();
                None
            }
            Op::Exec(c, p, b) => {
                let (cs, bs) = (&mut self.ctx, &self.bind);
                Some(real::exec_in(&mut cs[c as usize], PROGS[p as usize], &bs[b as usize]))
            }
            Op::Details(c, p) => {
                let _ = self.ctx[c as usize].program_details(PROGS[p as usize]).map(|d| (d.params().len(), d.source().map(|s| s.len())));
                None
            }
        }
    }
}

thread_local! {
    /// results of freshly built objects, per (context content, binding content, program)
    static FRESH: RefCell<HashMap<(BTreeMap<u8, u8>, BTreeMap<u8, u8>, u8), String>> = RefCell::new(HashMap::new());
    static BYTECODE: RefCell<HashMap<u8, Program>> = RefCell::new(HashMap::new());
}

fn fresh_result(ctx: &BTreeMap<u8, u8>, bind: &BTreeMap<u8, u8>, p: u8) -> String {
    let key = (ctx.clone(), bind.clone(), p);
    if let Some(r) = FRESH.with(|f| f.borrow().get(&key).cloned()) {
        return r;
    }
    let mut c = CelContext::new();
    // added in reverse name order: a fresh object built differently from any history
    // and through the other construction path (Program::from_source + add_program)
    for (name, s) in ctx.iter().rev() {
        c.add_program(PROGS[*name as usize], Program::from_source(SRC[*s as usize]).expect("fixed sources compile"));
    }
    let mut b = BindContext::new();
    for (v, x) in bind.iter().rev() {
        b.bind_param(VARS[*v as usize], value(*x));
    }
    let r = real::exec_in(&mut c, PROGS[p as usize], &b).show();
    FRESH.with(|f| f.borrow_mut().insert(key, r.clone()));
    r
}

/// a freshly compiled program of the source (compared instruction-wise; constants that are maps
/// compare independently of their iteration order)
fn fresh_program(s: u8) -> Program {
    if let Some(r) = BYTECODE.with(|f| f.borrow().get(&s).cloned()) {
        return r;
    }
    let p = Program::from_source(SRC[s as usize]).expect("fixed sources compile");
    BYTECODE.with(|f| f.borrow_mut().insert(s, p.clone()));
    p
}

fn hist_show(h: &[Op]) -> Vec<String> {
    h.iter().map(|o| o.show()).collect()
}

/// replay a history on fresh real objects and on the model; returns both and the exec results seen
fn replay<'a>(h: &[Op]) -> (Abs, Real<'a>, Vec<(usize, Outcome)>) {
    let mut abs = Abs::default();
    let mut real = Real::new();
    let mut execs = Vec::new();
    for (i, op) in h.iter().enumerate() {
        abs.apply(*op);
        if let Some(o) = real.apply(*op) {
            execs.push((i, o));
        }
    }
    (abs, real, execs)
}

/// the invariants of one state; returns the number of comparisons made
fn check_state(h: &[Op], abs: &Abs, real: &mut Real, execs: &[(usize, Outcome)], acc: &mut Acc) -> u64 {
    let mut n = 0u64;
    let case = || json!({"history": hist_show(h)});
    // (iii) the real objects hold exactly the abstract state
    for c in 0..2 {
        for p in 0..PROGS.len() as u8 {
            let got = real.ctx[c].get_program(PROGS[p as usize]);
            n += 1;
            match (abs.ctx[c].get(&p), got) {
                (None, None) => {}
                (Some(s), Some(prog)) => {
                    if prog.source() != Some(SRC[*s as usize]) {
                        acc.violation(
                            "stored-program-source-differs-from-model",
                            case(),
                            format!("c{}.{} = `{}`", c, PROGS[p as usize], SRC[*s as usize]),
                            format!("{:?}", prog.source()),
                        );
                    } else if !real::bytecode_same(prog, &fresh_program(*s)) {
                        acc.violation(
                            "stored-program-bytecode-changed",
                            case(),
                            format!("bytecode of a fresh compile of `{}`", SRC[*s as usize]),
                            format!("{:?}", prog.bytecode()),
                        );
                    } else {
                        // what inspecting the details shows: the parameters of a fresh compile
                        let fresh = fresh_program(*s);
                        let (mut want, mut have): (Vec<&str>, Vec<&str>) = (fresh.params(), prog.params());
                        want.sort();
                        have.sort();
                        let details: Option<Vec<String>> = real.ctx[c].program_details(PROGS[p as usize]).map(|d| {
                            let mut v: Vec<String> = d.params().iter().map(|x| x.to_string()).collect();
                            v.sort();
                            v
                        });
                        if want != have || details.as_ref().map(|d| d.iter().map(|x| x.as_str()).collect::<Vec<_>>()) != Some(want.clone()) {
                            acc.violation(
                                "stored-program-parameters-changed",
                                case(),
                                format!("parameters of a fresh compile of `{}`: {:?}", SRC[*s as usize], want),
                                format!("program: {:?}, details: {:?}", have, details),
                            );
                        }
                    }
                }
                (a, g) => acc.violation(
                    "stored-programs-differ-from-model",
                    case(),
                    format!("c{}.{} present: {}", c, PROGS[p as usize], a.is_some()),
                    format!("present: {}", g.is_some()),
                ),
            }
        }
    }
    for b in 0..2 {
        for v in 0..VARS.len() as u8 {
            let got = real.bind[b].get_param(VARS[v as usize]).cloned();
            n += 1;
            let want = abs.bind[b].get(&v).map(|x| value(*x));
            let same = match (&want, &got) {
                (None, None) => true,
                (Some(a), Some(g)) => real::cel_same(a, g),
                _ => false,
            };
            if !same {
                acc.violation("bindings-differ-from-model", case(), format!("b{}.{} = {:?}", b, VARS[v as usize], want), format!("{:?}", got));
            }
        }
    }
    // (i)+(ii) every program under every binding set: equal to fresh objects, twice
    for c in 0..2usize {
        let names: Vec<u8> = abs.ctx[c].keys().cloned().collect();
        for p in names {
            for b in 0..2usize {
                let want = fresh_result(&abs.ctx[c], &abs.bind[b], p);
                // short histories are repeated 40 times: state leaking from one execution into the
                // next (for instance at the depth limit) accumulates within the case
                let reps = if h.len() <= 2 { 40 } else { 2 };
                for rep in 0..reps {
                    let (cs, bs) = (&mut real.ctx, &real.bind);
                    let got = real::exec_in(&mut cs[c], PROGS[p as usize], &bs[b]);
                    n += 1;
                    acc.class(&got.class());
                    if got.is_panic() {
                        acc.violation("exec panic", case(), want.clone(), got.show());
                    } else if got.show() != want {
                        acc.violation(
                            if rep == 0 { "result-depends-on-history" } else { "repeated-execution-differs" },
                            json!({"history": hist_show(h), "exec": format!("exec(c{}, {}, b{})", c, PROGS[p as usize], b)}),
                            format!("a freshly built context and binding set give {}", want),
                            got.show(),
                        );
                    }
                }
            }
        }
    }
    // the exec operations inside the history gave what the state at that point determines
    for (i, o) in execs {
        if let Op::Exec(c, p, b) = h[*i] {
            let mut a = Abs::default();
            for op in &h[..*i] {
                a.apply(*op);
            }
            n += 1;
            if a.ctx[c as usize].contains_key(&p) {
                let want = fresh_result(&a.ctx[c as usize], &a.bind[b as usize], p);
                if o.show() != want {
                    acc.violation(
                        "result-depends-on-history (exec inside the history)",
                        json!({"history": hist_show(h), "step": i}),
                        want,
                        o.show(),
                    );
                }
            } else if !o.is_fail() {
                acc.violation("exec-of-missing-program-did-not-fail", json!({"history": hist_show(h), "step": i}), "a failure".into(), o.show());
            }
        }
    }
    n
}

pub struct Explorer {
    pub states: u64,
    pub transitions: u64,
    pub max_depth: usize,
    pub comparisons: u64,
}

/// breadth-first search with deduplication on the canonical abstract state; every transition is
/// executed on real objects and the successor is checked on every arrival (also when seen before)
fn bfs(max_depth: usize, acc: &mut Acc) -> Explorer {
    let mut seen: BTreeSet<Abs> = BTreeSet::new();
    seen.insert(Abs::default());
    let mut frontier: Vec<Vec<Op>> = vec![vec![]];
    let mut ex = Explorer { states: 1, transitions: 0, max_depth: 0, comparisons: 0 };
    for depth in 1..=max_depth {
        let results: Mutex<Vec<(Vec<Op>, Abs)>> = Mutex::new(Vec::new());
        let accs: Mutex<Vec<Acc>> = Mutex::new(Vec::new());
        let next = std::sync::atomic::AtomicUsize::new(0);
        let cmp = std::sync::atomic::AtomicU64::new(0);
        std::thread::scope(|s| {
            for _ in 0..workers() {
                s.spawn(|| {
                    let mut a = Acc::default();
                    a.family = "bfs".into();
                    loop {
                        let i = next.fetch_add(1, std::sync::atomic::Ordering::Relaxed);
                        if i >= frontier.len() {
                            break;
                        }
                        for op in OPS {
                            let mut h = frontier[i].clone();
                            h.push(op);
                            // address the case like the index-addressed families do, so that --replay finds it
                            a.family = format!("histories-{}", h.len());
                            a.index = h.iter().fold(0u64, |r, o| r * OPS.len() as u64 + OPS.iter().position(|x| x == o).unwrap() as u64);
                            let (abs, mut real, execs) = replay(&h);
                            let n = check_state(&h, &abs, &mut real, &execs, &mut a);
                            a.evals(n);
                            cmp.fetch_add(n, std::sync::atomic::Ordering::Relaxed);
                            a.nontrivial(&h);
                            if a.wants_sample() {
                                a.sample(json!({"history": hist_show(&h), "abstract_state": format!("{:?}", abs)}));
                            }
                            results.lock().unwrap().push((h, abs));
                        }
                    }
                    accs.lock().unwrap().push(a);
                });
            }
        });
        for a in accs.into_inner().unwrap() {
            acc.merge(a);
        }
        let mut res = results.into_inner().unwrap();
        res.sort();
        ex.transitions += res.len() as u64;
        ex.comparisons += cmp.load(std::sync::atomic::Ordering::Relaxed);
        let mut nf = Vec::new();
        for (h, abs) in res {
            if seen.insert(abs) {
                ex.states += 1;
                nf.push(h);
            }
        }
        if nf.is_empty() {
            break;
        }
        ex.max_depth = depth;
        frontier = nf;
    }
    ex
}

/// all histories of exactly `len` operations, no deduplication (index-addressed)
fn run_history(len: usize, idx: u64, acc: &mut Acc) {
    let d = unrank(idx, &vec![OPS.len() as u64; len]);
    let h: Vec<Op> = d.iter().map(|i| OPS[*i as usize]).collect();
    let (abs, mut real, execs) = replay(&h);
    let n = check_state(&h, &abs, &mut real, &execs, acc);
    acc.evals(n);
    acc.nontrivial(&idx);
    if acc.wants_sample() {
        acc.sample(json!({"history": hist_show(&h)}));
    }
}

/// free-running complement (NOT exhaustive): the final state of every history of length 2 (quick) / 3 (thorough) is
/// rebuilt and executed on 16 OS threads at once
fn threads_part(t: Tier, acc: &mut Acc) -> u64 {
    let n = OPS.len() as u64;
    // quick: only histories whose first operation adds the program that is executed
    let len = t.pick(2usize, 3usize);
    let total = n.pow(len as u32);
    let mut runs = 0u64;
    let mismatches: Mutex<Vec<(Vec<String>, String, String)>> = Mutex::new(Vec::new());
    for idx in 0..total {
        let d = unrank(idx, &vec![n; len]);
        let h: Vec<Op> = d.iter().map(|i| OPS[*i as usize]).collect();
        let mut abs = Abs::default();
        for op in &h {
            abs.apply(*op);
        }
        if abs.ctx[0].is_empty() {
            continue;
        }
        let p = *abs.ctx[0].keys().next().unwrap();
        let want = fresh_result(&abs.ctx[0], &abs.bind[0], p);
        runs += 16;
        std::thread::scope(|s| {
            for _ in 0..16 {
                s.spawn(|| {
                    let (_, mut real, _) = replay(&h);
                    let (cs, bs) = (&mut real.ctx, &real.bind);
                    let got = real::exec_in(&mut cs[0], PROGS[p as usize], &bs[0]).show();
                    if got != want {
                        mismatches.lock().unwrap().push((hist_show(&h), want.clone(), got));
                    }
                });
            }
        });
    }
    for (h, w, g) in mismatches.into_inner().unwrap() {
        acc.violation("concurrent-execution-differs (free-running threads)", json!({"history": h}), w, g);
    }
    runs
}

// ---------------------------------------------------------------------------
// interference: a result must not depend on which OTHER programs ran before on the same thread

fn interference_programs() -> Vec<String> {
    let mut v: Vec<String> = Vec::new();
    for p in ["a", "b+", "^c", "d$", "[e]", "f|g", "h?i", "(j)", "k*l", "m{2}", "\\d", "n.", "[^o]p", "q+?"] {
        v.push(format!("s.matches('{}')", p));
        v.push(format!("s.matchCaptures('{}')", p));
        v.push(format!("s.matchReplace('{}', 'X')", p));
        v.push(format!("s.matchReplaceOnce('{}', 'X')", p));
    }
    for z in ["UTC", "US/Pacific", "Europe/Berlin", "Asia/Tokyo", "Australia/Sydney", "America/Sao_Paulo", "Africa/Cairo", "Asia/Kolkata", "Pacific/Auckland", "America/New_York"] {
        v.push(format!("t.getHours('{}')", z));
        v.push(format!("t.getDate('{}')", z));
    }
    for (a, b) in [("m", "ft"), ("kg", "lb"), ("l", "gal"), ("s", "min"), ("km", "mi"), ("g", "oz"), ("c", "f"), ("in", "cm"), ("yd", "m"), ("h", "s")] {
        v.push(format!("uomConvert(2.5, '{}', '{}')", a, b));
    }
    for d in ["1s", "90s", "1h30m", "2h", "15m", "1500ms", "3h5m", "45s", "7m", "10h"] {
        v.push(format!("duration('{}') + d0", d));
    }
    for k in 0..10 {
        v.push(format!("s.split('{}')", (b'a' + k) as char));
        v.push(format!("timestamp('2023-0{}-1{}T0{}:00:00Z') < t", 1 + k % 9, k, k));
        v.push(format!("{{'k{}': n}}.map(x, x)", k));
    }
    v
}

fn interference_bindings<'a>() -> BindContext<'a> {
    let mut b = BindContext::new();
    b.bind_param("s", CelValue::String("abcdefghijkklmmn.opq1".into()));
    b.bind_param("n", CelValue::Int(3));
    if let Outcome::Value(t) = real::eval("timestamp('2024-03-10T09:59:59Z')", &[]) {
        b.bind_param("t", t);
    }
    if let Outcome::Value(d) = real::eval("duration('1s')", &[]) {
        b.bind_param("d0", d);
    }
    b
}

fn run_interference(idx: u64, acc: &mut Acc) {
    let progs = interference_programs();
    let a = progs[idx as usize].clone();
    let exec_one = |src: &str| -> String {
        let b = interference_bindings();
        real::eval_with(src, &b).show()
    };
    // on a thread that has run nothing else
    let a1 = a.clone();
    let r0 = std::thread::spawn(move || {
        let b = interference_bindings();
        real::eval_with(&a1, &b).show()
    })
    .join()
    .unwrap_or_else(|_| "thread panicked".into());
    // on a thread that ran every other program before (twice around), then A three times
    let all = progs.clone();
    let a2 = a.clone();
    let later: Vec<String> = std::thread::spawn(move || {
        real::install_panic_hook();
        for _ in 0..2 {
            for p in &all {
                let b = interference_bindings();
                let _ = real::eval_with(p, &b);
            }
        }
        (0..3)
            .map(|_| {
                let b = interference_bindings();
                real::eval_with(&a2, &b).show()
            })
            .collect()
    })
    .join()
    .unwrap_or_else(|_| vec!["thread panicked".into()]);
    let _ = exec_one;
    acc.evals(2 * progs.len() as u64 + 4);
    acc.nontrivial(&("interference", idx));
    acc.class(if r0.starts_with("Value") { "value" } else { "fail" });
    for (i, r) in later.iter().enumerate() {
        if *r != r0 {
            acc.violation(
                "result-depends-on-programs-executed-before-on-the-same-thread",
                json!({"src": a, "executed_before": format!("all {} interference programs, twice", progs.len()), "repetition": i}),
                format!("the result on a thread that ran nothing else: {}", r0),
                r.clone(),
            );
            break;
        }
    }
    if acc.wants_sample() {
        acc.sample(json!({"src": a, "alone": r0, "after_all_others": later}));
    }
}

fn schedule_audit() -> Vec<String> {
    let mut hits = Vec::new();
    fn walk(dir: &std::path::Path, hits: &mut Vec<String>) {
        if let Ok(rd) = std::fs::read_dir(dir) {
            for e in rd.flatten() {
                let p = e.path();
                if p.is_dir() {
                    walk(&p, hits);
                } else if p.extension().map(|x| x == "rs").unwrap_or(false) {
                    if p.ends_with("verif.rs") || p.to_string_lossy().contains("/tests/") {
                        continue;
                    }
                    if let Ok(t) = std::fs::read_to_string(&p) {
                        for (i, line) in t.lines().enumerate() {
                            let l = line.trim();
                            if l.starts_with("//") {
                                continue;
                            }
                            for pat in ["static mut", "thread_local!", "lazy_static", "OnceCell", "OnceLock", "Mutex<", "RwLock<", "Atomic", "unsafe ", "Rc<", "LazyLock"] {
                                if l.contains(pat) && !l.contains("Arc<") {
                                    hits.push(format!("{}:{}: {}", p.display(), i + 1, pat));
                                }
                            }
                        }
                    }
                }
            }
        }
    }
    walk(std::path::Path::new("/repo/rscel/src"), &mut hits);
    hits
}

pub fn replay_families(t: Tier) -> Vec<Family<'static>> {
    // the search reaches depth 6 / 12: every history it can report is addressable
    let maxlen = t.pick(6, 12);
    let mut v: Vec<Family<'static>> = (1..=maxlen).map(|l| Family::new(&format!("histories-{}", l), (OPS.len() as u64).pow(l as u32), move |i, a| run_history(l, i, a))).collect();
    v.push(Family::new("interference", interference_programs().len() as u64, run_interference));
    v
}

pub fn run(t: Tier) -> i32 {
    let mut rep = Report::new(ID, t, "model_checking");
    rep.rule = format!(
        "model: two contexts (name -> source over 3 names, 17 colliding sources: a variable, a reference to another program, a macro whose loop variable is named like a bound variable, map macros, a macro shadowing w and reading q, a program referring to itself, keys differing only in case, two texts differing only in blanks inside a literal, a map comparison with a failing entry, two programs without identifiers and two readers of them - one as a plain operand, one inside a foldable call) and two binding sets (2 variables, 4 values); 29 operations (add/replace x17, bind/rebind incl. a double equal to a bound int under == and an empty text, bind/rebind x4, clone context, clone bindings, exec x3, inspect details). bfs: breadth-first search to depth {} (or closure) deduplicated on the canonical abstract state, every transition executed on real objects rebuilt by replaying the history and the successor checked on every arrival; histories: every history of length 1..{} without deduplication ({} histories). interference: each of 126 programs over regex patterns, zones, units, durations, timestamps and map macros gives, after all the others ran twice on the same thread, the result it gives on a thread that ran nothing else. Invariants after every history: the real objects hold exactly the model state (sources, bytecode and reported parameters equal to a fresh compile, bindings); every stored program under both binding sets, executed twice (40 times for histories of length <= 2), equals the result of freshly built objects holding the same abstract state; every exec inside the history gave what the state before it determines. Non-trivial = every history; distinct by history",
        t.pick(6, 8),
        t.pick(4, 5),
        (1..=t.pick(4u32, 5u32)).map(|l| (OPS.len() as u64).pow(l)).sum::<u64>()
    );
    let mut acc = Acc::default();
    acc.family = "bfs".into();
    let t0 = std::time::Instant::now();
    let ex = bfs(t.pick(6, 8), &mut acc);
    eprintln!("[C11] bfs states {} transitions {} depth {} comparisons {} {:.1}s", ex.states, ex.transitions, ex.max_depth, ex.comparisons, t0.elapsed().as_secs_f64());
    rep.family_sizes.push(("bfs".into(), ex.transitions));
    rep.acc.merge(acc);
    let mut traces = ex.transitions;
    for f in replay_families(t).into_iter().take(t.pick(4, 5)) {
        traces += f.size;
        rep.run_family(f);
    }
    rep.run_family(Family::new("interference", interference_programs().len() as u64, run_interference));
    let mut acc = Acc::default();
    acc.family = "threads".into();
    let truns = threads_part(t, &mut acc);
    rep.acc.merge(acc);
    rep.set("states", json!(ex.states));
    rep.set("transitions", json!(ex.transitions));
    rep.set("bfs_max_depth_with_new_states", json!(ex.max_depth));
    rep.set("traces_validated_against_impl", json!(traces));
    rep.set("free_running_thread_executions_NOT_exhaustive", json!(truns));
    let audit = schedule_audit();
    rep.set("schedule_audit_hits", json!(audit));
    if !audit.is_empty() {
        eprintln!("NOTE schedule-audit: shared-state constructs now appear in rscel/src: {:?}", audit);
    }
    rep.assumptions = vec![
        "schedules: rscel has no shared mutable state and no synchronisation points (audit of static/thread_local/lock/atomic/unsafe/Rc re-run by this check, hits listed in the evidence), so controlled-scheduler exploration would see exactly one schedule; the thread dimension is covered only by a free-running 16-thread differential labelled as such".into(),
        "the clock is not read by the sources".into(),
    ];
    rep.finish()
}
