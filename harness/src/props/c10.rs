//! C10 — emitted bytecode is well-formed on every path; the VM rejects out-of-range jumps.
//!
//! Part 1 (explicit-state): for every generated program, every block (the program and every
//! nested code block pushed for calls, macros and f-strings) is explored as an abstract
//! machine with state (block, pc, stack height): ALL reachable states over ALL paths, not the
//! executed one. Invariants on every state/transition are listed in `explore_block`.
//! The abstract machine is bound to the real VM through the `rscel_verif` trace hook: every
//! real execution must be a path of the model with identical heights.
//! Part 2: all short instruction sequences with forward / out-of-range jumps are loaded
//! through the public deserialiser and executed against a reference small-step VM.
use crate::engine::*;
use crate::real::{self, Outcome};
use crate::refmodel::{self, Arith, Exp};
use crate::val::V;
use rscel::verif::{self, VmEvent};
use rscel::{BindContext, ByteCode, CelContext, CelValue, Program};
use serde_json::json;
use std::collections::{BTreeMap, BTreeSet, HashMap};
use std::sync::Mutex;

pub const ID: &str = "C10";

// ---------------------------------------------------------------------------
// abstract machine

/// stack effect: (operands needed, net change); jumps handled separately
fn effect(b: &ByteCode) -> (i64, i64) {
    use ByteCode::*;
    match b {
        Push(_) => (0, 1),
        Pop => (1, -1),
        Test | Not | Neg => (1, 0),
        Dup => (1, 1),
        Or | And | Add | Sub | Mul | Div | Mod | Lt | Le | Eq | Ne | Ge | Gt | In => (2, -1),
        Jmp(_) => (0, 0),
        JmpCond { .. } => (1, -1),
        MkList(n) => (*n as i64, 1 - *n as i64),
        MkDict(n) => (2 * *n as i64, 1 - 2 * *n as i64),
        Index | Access => (2, -1),
        Call(n) => (*n as i64 + 1, -(*n as i64)),
        FmtString(n) => (*n as i64, 1 - *n as i64),
    }
}

#[derive(Default, Clone)]
pub struct BlockModel {
    pub len: usize,
    /// the unique stack height at each reachable pc (0..=len)
    pub height: BTreeMap<usize, i64>,
    pub edges: BTreeSet<(usize, usize)>,
    pub states: u64,
    pub transitions: u64,
}

#[derive(Debug)]
pub struct Defect {
    pub kind: &'static str,
    pub detail: String,
}

/// explore every reachable (pc, height) of one block; returns the model or the first defect
pub fn explore_block(code: &[ByteCode]) -> Result<BlockModel, Defect> {
    let len = code.len();
    let mut m = BlockModel { len, ..Default::default() };
    let mut seen: BTreeSet<(usize, i64)> = BTreeSet::new();
    let mut work: Vec<(usize, i64)> = vec![(0, 0)];
    while let Some((pc, h)) = work.pop() {
        if !seen.insert((pc, h)) {
            continue;
        }
        m.states += 1;
        match m.height.get(&pc) {
            Some(prev) if *prev != h => {
                return Err(Defect { kind: "paths-meet-with-different-stack-heights", detail: format!("pc {} reached with heights {} and {}", pc, prev, h) })
            }
            _ => {
                m.height.insert(pc, h);
            }
        }
        if pc == len {
            if h != 1 {
                return Err(Defect { kind: "block-ends-with-wrong-stack-height", detail: format!("a path reaches the end with {} values", h) });
            }
            continue;
        }
        let ins = &code[pc];
        let (need, net) = effect(ins);
        if h < need {
            return Err(Defect { kind: "pops-from-empty-stack", detail: format!("pc {} ({:?}) needs {} operands, a path arrives with {}", pc, ins, need, h) });
        }
        let nh = h + net;
        let mut succ: Vec<usize> = Vec::new();
        let mut jump = |d: i32, succ: &mut Vec<usize>| -> Result<(), Defect> {
            let target = pc as i64 + 1 + d as i64;
            if target < 0 || target > len as i64 {
                return Err(Defect { kind: "jump-out-of-range", detail: format!("pc {} jumps to {} in a block of {} instructions", pc, target, len) });
            }
            if d < 0 {
                return Err(Defect { kind: "backward-jump", detail: format!("pc {} jumps back to {}", pc, target) });
            }
            succ.push(target as usize);
            Ok(())
        };
        match ins {
            ByteCode::Jmp(d) => jump(*d, &mut succ)?,
            ByteCode::JmpCond { dist, .. } => {
                succ.push(pc + 1);
                jump(*dist, &mut succ)?;
            }
            _ => succ.push(pc + 1),
        }
        for s in succ {
            m.transitions += 1;
            m.edges.insert((pc, s));
            work.push((s, nh));
        }
    }
    Ok(m)
}

fn listing(code: &[ByteCode]) -> String {
    // the same text the hook reports for a block (Debug of CelByteCode)
    format!("CelByteCode {{ inner: {:?} }}", code)
}

/// the program block and every nested block, recursively
fn all_blocks(code: &[ByteCode], out: &mut Vec<Vec<ByteCode>>) {
    out.push(code.to_vec());
    for ins in code {
        if let ByteCode::Push(v) = ins {
            nested_in_value(v, out);
        }
    }
}
fn nested_in_value(v: &CelValue, out: &mut Vec<Vec<ByteCode>>) {
    match v {
        CelValue::ByteCode(inner) => {
            let c: Vec<ByteCode> = inner.iter().cloned().collect();
            all_blocks(&c, out);
        }
        CelValue::List(l) => l.iter().for_each(|x| nested_in_value(x, out)),
        CelValue::Map(m) => m.values().for_each(|x| nested_in_value(x, out)),
        _ => {}
    }
}

// ---------------------------------------------------------------------------
// program generator

fn logic_exprs(nodes: usize, atoms: &[&str], memo: &mut Vec<Vec<String>>) -> Vec<String> {
    if memo.len() > nodes {
        return memo[nodes].clone();
    }
    for n in memo.len()..=nodes {
        let mut out: Vec<String> = Vec::new();
        if n == 0 {
            out.extend(atoms.iter().map(|s| s.to_string()));
        } else {
            for a in memo[n - 1].clone() {
                out.push(format!("!({})", a));
            }
            for i in 0..n {
                let j = n - 1 - i;
                for a in &memo[i] {
                    for b in &memo[j] {
                        out.push(format!("({} || {})", a, b));
                        out.push(format!("({} && {})", a, b));
                    }
                }
            }
            for i in 0..n {
                for j in 0..(n - i) {
                    let k = n - 1 - i - j;
                    for a in &memo[i] {
                        for b in &memo[j] {
                            for c in &memo[k] {
                                out.push(format!("({} ? {} : {})", a, b, c));
                            }
                        }
                    }
                }
            }
        }
        memo.push(out);
    }
    memo[nodes].clone()
}

fn match_exprs(t: Tier) -> Vec<String> {
    let pats = ["1", ">0", "int", "_", "'a'", "<= y", "!= 1", "== y", "< 0"];
    let arms = ["x", "(x ? 1 : 2)", "(x || y)", "match y { case _: 1 }", "f(x)", "[x].map(v, v ? 1 : 2)"];
    let scr = ["x", "(x ? y : 1)", "f(x)", "1"];
    let mut out = Vec::new();
    let maxc = t.pick(2, 3);
    for s in scr {
        out.push(format!("match {} {{ }}", s));
        let mut last: Vec<String> = vec![String::new()];
        for _ in 0..maxc {
            let mut next = Vec::new();
            for l in &last {
                for p in pats {
                    for a in arms {
                        let sep = if l.is_empty() { "" } else { ", " };
                        next.push(format!("{}{}case {}: {}", l, sep, p, a));
                    }
                }
            }
            for n in &next {
                out.push(format!("match {} {{ {} }}", s, n));
            }
            last = next;
        }
    }
    out
}

fn misc_exprs() -> Vec<String> {
    let mut v: Vec<String> = Vec::new();
    for s in [
        "f'{x}'", "f'a{x}b{y ? 1 : 2}c'", "f'{f\"{x}\"}'", "f'{x || y}{x && y}'", "f'{match x { case 1: y, case _: 2 }}'", "f''", "f'{{}}'",
        "[1].map(v, v ? x : y)", "l.filter(v, v > 0 && y)", "l.reduce(a, v, a + (v ? 1 : 0), 0)", "l.all(v, match v { case 1: x, case _: y })",
        "l.map(v, l.map(w, w ? v : x))", "has(x.a) ? x.a : y", "coalesce(x, y ? 1 : 2, z)", "x.f(y ? 1 : 2, z || w)", "f(x)(y)", "x[y ? 0 : 1][z]",
        "{'a': x ? 1 : 2, 'b': y || z}", "[x ? 1 : 2, y && z, !w]", "x.a.b.c", "x.a(y).b[z]", "-x", "--x", "-(x ? 1 : 2)", "!(x ? y : z)",
        "x in (y ? [1] : [2])", "(x ? y : z) ? (y ? 1 : 2) : (z ? 3 : 4)", "x ? y ? 1 : 2 : 3", "x ? 1 : y ? 2 : z ? 3 : 4",
        "size(x ? 'a' : 'bc')", "int(x || y)", "type(x ? 1 : 'a')", "timestamp(x).getHours(y ? 'UTC' : z)", "now()", "[now()][0]",
        "l.map(v, now())", "match x { case >y ? 1 : 2: 3 }",
        // a match as a clause of ?:, constant strings inside f-strings
        "x ? (match y { case 1: 2, case _: 3 }) : z", "x ? y : match z { case 1: 2, case 2: 3 }", "x ? y : match z { case 1: 2, case 2: 3, case _: 4 }",
        "x ? (match y { case 1: 2, case 2: 3 }) : (match z { case 1: 2, case 2: 3 })", "[x ? y : match z { case 1: 2, case 2: 3 }]",
        "f'{x}-{\"k\"}'", "f'{\"\"}'", "f'a{\"b\"}c{x}'", "f'{\"a\"}{\"b\"}'", "[7, {'a': x, 'a': y}]", "10 + {'a': x, 'a': y}.a", "{'a': x, 'b': y, 'a': z}",
        // double negation inside the span of a jump
        "x || !!y", "x && !!y", "x ? !!y : z", "x ? y : !!z", "f'{x && !!y}'", "l.map(v, v || !!x)", "match x { case 1: !!y, case _: z }",
        "(x || !!y) ? 1 : 2", "!!x || !!y", "--x < 0 || y", "x || --y > 0",
        // trailing commas
        "f(x,)", "[x, y,]", "[x,]", "x.g(y,)", "{'a': x,}", "[7, size(x,)]", "f(x, y,)[0]", "l.map(v, f(v,))", "f'{f(x,)}'", "x ? f(y,) : [z,]",
        // every comparison pattern
        "match x { case != y: 1, case == 1: 2, case < 0: 3, case >= y: 4, case <= 0: 5, case > y: 6 }", "[7, match x { case != 1: y }]",
    ] {
        v.push(s.to_string());
    }
    v
}

pub fn programs(t: Tier) -> Vec<String> {
    let mut out: Vec<String> = Vec::new();
    // C09's templates: all-variable and every literal mask
    for tp in crate::props::c09::templates() {
        let k = (0..3).filter(|i| tp.contains(&format!("${}", i))).count();
        for mask in 0u32..(1 << k) {
            // two sets of literals: truthy ones, and falsy ones with the bare keywords
            for set in 0..2 {
                if set == 1 && mask == 0 {
                    continue;
                }
                let mut s = tp.to_string();
                for i in 0..k {
                    let lit = [["(1)", "('a')", "(true)"], ["false", "(0)", "true"]][set][i];
                    let var = ["p", "q", "w"][i];
                    let text = if tp.starts_with("f'") && mask & (1 << i) != 0 { ["1", "2", "true"][i] } else if mask & (1 << i) != 0 { lit } else { var };
                    s = s.replace(&format!("${}", i), text);
                }
                out.push(s);
            }
        }
    }
    // logic trees
    let mut memo = Vec::new();
    let atoms = ["x", "y", "f()", "1", "true", "false"];
    for n in 0..=t.pick(2, 3) {
        out.extend(logic_exprs(n, &atoms, &mut memo));
    }
    out.extend(match_exprs(t));
    out.extend(misc_exprs());
    out
}

// ---------------------------------------------------------------------------
// part 1: static exploration + conformance of the model with the real VM

fn f_impl(_t: CelValue, a: Vec<CelValue>) -> CelValue {
    a.first().cloned().unwrap_or(CelValue::Bool(true))
}

pub struct Static {
    progs: Vec<String>,
    states: Mutex<(u64, u64, u64, u64, u64, u64)>, // states, transitions, blocks, traces, model edges, covered edges
}

const ASSIGN: [Option<&str>; 4] = [Some("true"), Some("0"), None, Some("'s'")];

impl Static {
    fn new(t: Tier) -> Static {
        Static { progs: programs(t), states: Mutex::new((0, 0, 0, 0, 0, 0)) }
    }
    fn run(&self, idx: u64, acc: &mut Acc) {
        let src = &self.progs[idx as usize];
        let prog: Program = match real::compile(src) {
            Ok(p) => p,
            Err(o) => {
                acc.eval();
                acc.class(&o.class());
                if o.is_panic() {
                    acc.violation("compile panic", json!({"src": src}), "a program or a syntax error".into(), o.show());
                }
                return;
            }
        };
        acc.eval();
        acc.class("compiled");
        let top: Vec<ByteCode> = prog.bytecode().iter().cloned().collect();
        let mut blocks = Vec::new();
        all_blocks(&top, &mut blocks);
        let mut models: HashMap<String, BlockModel> = HashMap::new();
        let (mut st, mut tr) = (0u64, 0u64);
        for (bi, b) in blocks.iter().enumerate() {
            match explore_block(b) {
                Ok(m) => {
                    st += m.states;
                    tr += m.transitions;
                    models.insert(listing(b), m);
                }
                Err(d) => {
                    acc.violation(
                        &format!("bytecode {} ({})", d.kind, if bi == 0 { "program block" } else { "nested block" }),
                        json!({"src": src, "block": format!("{:?}", b), "block_index": bi}),
                        "in-range forward jumps, no pop from an empty stack, one height per pc, exactly one value at the end".into(),
                        d.detail,
                    );
                    return;
                }
            }
        }
        acc.nontrivial(src);
        // conformance: real executions are paths of the model
        let vars: Vec<&str> = prog.params().into_iter().filter(|p| ["x", "y", "z", "w", "p", "q", "l"].contains(p)).collect();
        let mut vars = vars;
        vars.sort();
        vars.truncate(3);
        let n = ASSIGN.len() as u64;
        let combos = n.pow(vars.len() as u32);
        let mut covered: BTreeSet<(String, usize, usize)> = BTreeSet::new();
        let mut traces = 0u64;
        for c in 0..combos {
            let d = unrank(c, &vec![n; vars.len()]);
            let mut b = BindContext::new();
            b.bind_func("f", &f_impl);
            for (i, v) in vars.iter().enumerate() {
                if let Some(val) = ASSIGN[d[i] as usize] {
                    if let Outcome::Value(cv) = real::eval(val, &[]) {
                        if *v == "l" {
                            b.bind_param(v, CelValue::List(vec![cv, CelValue::Int(1)]));
                        } else {
                            b.bind_param(v, cv);
                        }
                    }
                }
            }
            let mut ctx = CelContext::new();
            ctx.add_program("main", prog.clone());
            verif::start_trace();
            let got = real::exec_in(&mut ctx, "main", &b);
            let trace = verif::take_trace();
            acc.eval();
            traces += 1;
            if got.is_panic() {
                acc.violation("execution panic", json!({"src": src}), "a value or an error".into(), got.show());
                continue;
            }
            if let Outcome::Fail(_, msg) = &got {
                if msg.contains("No value on stack") {
                    acc.violation("execution pops-from-empty-stack", json!({"src": src, "assignment": format!("{:?}", d)}), "never pops an empty stack".into(), got.show());
                    continue;
                }
            }
            // replay the trace against the model
            let mut names: HashMap<usize, String> = HashMap::new();
            let mut last: HashMap<usize, usize> = HashMap::new();
            for ev in &trace {
                match ev {
                    VmEvent::Enter { block, code } => {
                        names.insert(*block, code.clone());
                        last.remove(block);
                    }
                    VmEvent::Step { block, pc, height } => {
                        let name = match names.get(block) {
                            Some(n) => n,
                            None => continue,
                        };
                        // blocks of other programs (stored programs) or run-time constructed ones are not in the model
                        let m = match models.get(name) {
                            Some(m) => m,
                            None => continue,
                        };
                        match m.height.get(pc) {
                            Some(h) if *h == *height as i64 => {}
                            other => {
                                acc.count("MODEL-DRIFT: real VM height differs from the stack-effect table", 1);
                                acc.violation(
                                    "MACHINERY model-drift (stack-effect table vs VM)",
                                    json!({"src": src, "block": name, "pc": pc}),
                                    format!("model height {:?}", other),
                                    format!("real height {}", height),
                                );
                            }
                        }
                        if let Some(prev) = last.get(block) {
                            if !m.edges.contains(&(*prev, *pc)) {
                                acc.violation(
                                    "MACHINERY model-drift (real transition not in the model)",
                                    json!({"src": src, "block": name}),
                                    format!("an edge of the model from pc {}", prev),
                                    format!("real VM went {} -> {}", prev, pc),
                                );
                            } else {
                                covered.insert((name.clone(), *prev, *pc));
                            }
                        }
                        last.insert(*block, *pc);
                    }
                    VmEvent::Exit { block, height } => {
                        if let Some(name) = names.get(block) {
                            if let Some(m) = models.get(name) {
                                if *height != 1 {
                                    acc.violation("execution block-exit-height-not-one", json!({"src": src, "block": name}), "exactly one value".into(), format!("{} values", height));
                                }
                                if let Some(prev) = last.get(block) {
                                    if m.edges.iter().any(|(a, b)| a == prev && *b == m.len) {
                                        covered.insert((name.clone(), *prev, m.len));
                                    }
                                }
                            }
                        }
                    }
                }
            }
        }
        let total_edges: u64 = models.values().map(|m| m.edges.len() as u64).sum();
        let mut g = self.states.lock().unwrap();
        g.0 += st;
        g.1 += tr;
        g.2 += blocks.len() as u64;
        g.3 += traces;
        g.4 += total_edges;
        g.5 += covered.len() as u64;
        drop(g);
        if acc.wants_sample() {
            acc.sample(json!({"src": src, "blocks": blocks.len(), "abstract_states": st, "transitions": tr, "real_traces_replayed": traces, "bytecode": format!("{:?}", top)}));
        }
    }
}

// ---------------------------------------------------------------------------
// part 2: the VM's own bounds checks on arbitrary forward-jumping sequences

#[derive(Clone, Debug, PartialEq)]
enum RVal {
    B(bool),
    I(i64),
    Err,
}

#[derive(Clone, Copy, Debug)]
enum Ins {
    PushErr,
    PushT,
    PushF,
    Push1,
    Pop,
    Dup,
    Not,
    Add,
    Jmp(i32),
    JmpT(i32),
    JmpF(i32),
}

impl Ins {
    fn to_bc(&self) -> ByteCode {
        use rscel::ByteCode as B;
        match self {
            Ins::PushErr => B::Push(CelValue::from_err(rscel::CelError::DivideByZero)),
            Ins::PushT => B::Push(CelValue::Bool(true)),
            Ins::PushF => B::Push(CelValue::Bool(false)),
            Ins::Push1 => B::Push(CelValue::Int(1)),
            Ins::Pop => B::Pop,
            Ins::Dup => B::Dup,
            Ins::Not => B::Not,
            Ins::Add => B::Add,
            Ins::Jmp(d) => B::Jmp(*d),
            // JmpWhen is not exported: build the conditional jumps through their JSON form
            Ins::JmpT(_) | Ins::JmpF(_) => unreachable!(),
        }
    }
    fn json(&self) -> serde_json::Value {
        match self {
            Ins::JmpT(d) => json!({"JmpCond": {"when": "True", "dist": d}}),
            Ins::JmpF(d) => json!({"JmpCond": {"when": "False", "dist": d}}),
            other => serde_json::to_value(other.to_bc()).unwrap(),
        }
    }
}

fn alphabet(len: usize) -> Vec<Ins> {
    let mut v = vec![Ins::PushErr, Ins::PushT, Ins::PushF, Ins::Push1, Ins::Pop, Ins::Dup, Ins::Not, Ins::Add];
    let mut ds: Vec<i32> = (0..=(len as i32 + 2)).collect();
    ds.extend([-(len as i32) - 2, i32::MAX, i32::MIN]);
    for d in ds {
        v.push(Ins::Jmp(d));
        v.push(Ins::JmpT(d));
        v.push(Ins::JmpF(d));
    }
    v
}

/// reference small-step VM; Err(()) = the execution fails
fn ref_vm(code: &[Ins]) -> Result<RVal, ()> {
    let len = code.len() as i64;
    let mut pc: i64 = 0;
    let mut st: Vec<RVal> = Vec::new();
    let mut steps = 0;
    while pc < len {
        steps += 1;
        assert!(steps <= len + 1, "forward jumps only: at most one step per instruction");
        let ins = code[pc as usize];
        pc += 1;
        let jump = |pc: i64, d: i32| -> Result<i64, ()> {
            let t = pc + d as i64;
            if t < 0 || t > len {
                Err(())
            } else {
                Ok(t)
            }
        };
        match ins {
            Ins::PushErr => st.push(RVal::Err),
            Ins::PushT => st.push(RVal::B(true)),
            Ins::PushF => st.push(RVal::B(false)),
            Ins::Push1 => st.push(RVal::I(1)),
            Ins::Pop => {
                st.pop().ok_or(())?;
            }
            Ins::Dup => {
                let v = st.pop().ok_or(())?;
                st.push(v.clone());
                st.push(v);
            }
            Ins::Not => {
                let v = st.pop().ok_or(())?;
                st.push(match v {
                    RVal::Err => RVal::Err,
                    RVal::B(b) => RVal::B(!b),
                    RVal::I(i) => RVal::B(i == 0),
                });
            }
            Ins::Add => {
                let b = st.pop().ok_or(())?;
                let a = st.pop().ok_or(())?;
                let conv = |v: &RVal| match v {
                    RVal::B(b) => Some(V::Bool(*b)),
                    RVal::I(i) => Some(V::Int(*i)),
                    RVal::Err => None,
                };
                st.push(match (conv(&a), conv(&b)) {
                    (Some(x), Some(y)) => match refmodel::arith(Arith::Add, &x, &y) {
                        Exp::Val(V::Int(i)) => RVal::I(i),
                        Exp::Val(V::Bool(b)) => RVal::B(b),
                        _ => RVal::Err,
                    },
                    _ => RVal::Err,
                });
            }
            Ins::Jmp(d) => pc = jump(pc, d)?,
            Ins::JmpT(d) | Ins::JmpF(d) => {
                let when = matches!(ins, Ins::JmpT(_));
                match st.pop().ok_or(())? {
                    RVal::B(b) => {
                        if b == when {
                            pc = jump(pc, d)?;
                        }
                    }
                    RVal::Err => {
                        if !when {
                            pc = jump(pc, d)?;
                        }
                    }
                    RVal::I(_) => return Err(()),
                }
            }
        }
    }
    match st.pop() {
        None => Err(()),
        Some(RVal::Err) => Err(()),
        Some(v) => Ok(v),
    }
}

pub struct Seqs {
    maxlen: usize,
    offsets: Vec<u64>,
}
impl Seqs {
    fn new(t: Tier) -> Seqs {
        let maxlen = t.pick(3, 4);
        let mut offsets = vec![0u64];
        for l in 1..=maxlen {
            offsets.push(offsets.last().unwrap() + (alphabet(l).len() as u64).pow(l as u32));
        }
        Seqs { maxlen, offsets }
    }
    fn size(&self) -> u64 {
        *self.offsets.last().unwrap()
    }
    fn run(&self, idx: u64, acc: &mut Acc) {
        let li = match self.offsets.binary_search(&idx) {
            Ok(i) => i,
            Err(i) => i - 1,
        };
        let len = li + 1;
        debug_assert!(len <= self.maxlen);
        let alpha = alphabet(len);
        let d = unrank(idx - self.offsets[li], &vec![alpha.len() as u64; len]);
        let code: Vec<Ins> = d.iter().map(|x| alpha[*x as usize]).collect();
        let want = ref_vm(&code);
        let pj = json!({"details": {"source": null, "params": []}, "bytecode": {"inner": code.iter().map(|i| i.json()).collect::<Vec<_>>()}});
        let text = pj.to_string();
        let prog: Program = match real::guarded("deserialize", || serde_json::from_str::<Program>(&text)) {
            Ok(Ok(p)) => p,
            Ok(Err(e)) => {
                acc.violation("MACHINERY cannot-build-program-from-json", json!({"json": text}), "deserialises".into(), format!("{}", e));
                return;
            }
            Err(o) => {
                acc.violation("vm-sequence deserialize-panic", json!({"json": text}), "a program".into(), o.show());
                return;
            }
        };
        let b = BindContext::new();
        let got = real::exec_prog(prog, &b);
        acc.eval();
        acc.class(&got.class());
        acc.nontrivial(&idx);
        let out_of_range = code.iter().enumerate().any(|(pc, i)| match i {
            Ins::Jmp(d) | Ins::JmpT(d) | Ins::JmpF(d) => {
                let t = pc as i64 + 1 + *d as i64;
                t < 0 || t > len as i64
            }
            _ => false,
        });
        let site = if out_of_range { "vm-sequence with-out-of-range-jump" } else { "vm-sequence" };
        let ok = match (&want, &got) {
            (_, Outcome::Panic { .. }) => false,
            (Err(()), Outcome::Fail(..)) => true,
            (Ok(RVal::B(b)), o) => matches!(o.value(), Some(V::Bool(x)) if x == *b),
            (Ok(RVal::I(i)), o) => matches!(o.value(), Some(V::Int(x)) if x == *i),
            _ => false,
        };
        if !ok {
            acc.violation(
                &format!("{} {}", site, if got.is_panic() { "panic" } else { "differs-from-reference-vm" }),
                json!({"code": format!("{:?}", code)}),
                format!("{:?}", want),
                got.show(),
            );
        }
        if acc.wants_sample() {
            acc.sample(json!({"code": format!("{:?}", code), "expected": format!("{:?}", want), "observed": got.show()}));
        }
    }
}

pub fn replay_families(t: Tier) -> Vec<Family<'static>> {
    let s: &'static Static = Box::leak(Box::new(Static::new(t)));
    let q: &'static Seqs = Box::leak(Box::new(Seqs::new(t)));
    vec![
        Family::new("programs", s.progs.len() as u64, move |i, a| s.run(i, a)),
        Family::new("vm-sequences", q.size(), move |i, a| q.run(i, a)),
    ]
}

pub fn run(t: Tier) -> i32 {
    let mut rep = Report::new(ID, t, "model_checking");
    let s = Static::new(t);
    let q = Seqs::new(t);
    rep.rule = format!(
        "programs: {} generated programs (C09's templates in every literal/variable mask, all trees over || && ?: ! with <= {} internal nodes over 4 atoms, match with 0..{} cases over 9 patterns (literals, every comparison operator, a type, _) x 6 arms x 4 scrutinees, f-strings, macros with branching bodies, member/index/call chains); for each, every block (program + nested code blocks) is explored as an abstract machine (pc, stack height) over ALL paths: jump targets in [0,len] and forward, no instruction needs more operands than the height, one height per pc, height 1 at the end; the model is bound to the implementation by replaying the real VM trace (hook: block, pc, height before each instruction, height at exit) of every assignment of up to 3 variables over {{true, 0, unbound, 's'}} against the model. vm-sequences: every instruction sequence of length 1..{} over push error/true/false/1, pop, dup, not, add and jmp / jmp-if-true / jmp-if-false with every forward distance 0..len+2 and three out-of-range distances, loaded through the public deserialiser, against a reference small-step VM. Non-trivial = every compiled program / every sequence",
        s.progs.len(),
        t.pick(2, 3),
        t.pick(2, 3),
        q.maxlen
    );
    rep.run_family(Family::new("programs", s.progs.len() as u64, |i, a| s.run(i, a)));
    rep.run_family(Family::new("vm-sequences", q.size(), |i, a| q.run(i, a)));
    let g = s.states.lock().unwrap();
    rep.set("states", json!(g.0));
    rep.set("transitions", json!(g.1));
    rep.set("blocks", json!(g.2));
    rep.set("traces_validated_against_impl", json!(g.3));
    rep.set("model_edges", json!(g.4));
    rep.set("model_edges_covered_by_real_traces", json!(g.5));
    drop(g);
    // A drift between the stack-effect table and the VM on its own is a machinery error, not a
    // verdict. When the real VM also shows what the property forbids (a block that ends with another
    // number of values than one), the VM has changed its stack discipline: that is the verdict, and
    // the drift is only its echo.
    if rep.acc.violations.keys().any(|k| k.starts_with("MACHINERY")) {
        let real = rep.acc.violations.keys().any(|k| k.starts_with("execution "));
        let drift: Vec<String> = rep.acc.violations.keys().filter(|k| k.starts_with("MACHINERY")).cloned().collect();
        for k in &drift {
            let (n, vs) = &rep.acc.violations[k];
            eprintln!("{}: {} ({} cases) e.g. {:?}", if real { "NOTE (echo of the violation below)" } else { "MACHINERY ERROR" }, k, n, vs.first().map(|v| (&v.case, &v.expected, &v.observed)));
        }
        if !real {
            return 2;
        }
        for k in &drift {
            if let Some((n, _)) = rep.acc.violations.remove(k) {
                *rep.acc.counters.entry(format!("{} (reported through the execution violations)", k)).or_insert(0) += n;
            }
        }
    }
    rep.assumptions = vec![
        "the trace hook (feature rscel_verif) reports the VM's real pc and stack height".into(),
        "in-range backward jumps are outside the statement (the compiler never emits them; the explorer reports one as a defect)".into(),
    ];
    rep.finish()
}
