//! C20 — CEL-to-SQL translation preserves structure and cannot be escaped by literals.
//!
//! Every generated expression tree over the translatable subset is rendered to CEL, translated
//! by the implementation and the SQL text is read back by an independent tokenizer/parser for the
//! emitted dialect (SQL precedences: postfix :: [] -> ->> call tightest, then prefix ! -, * / %,
//! + -, comparisons and in, AND, OR). The tree read back must equal the source tree under the
//! fixed operator mapping; every CEL string literal must be exactly one SQL string token with
//! the same content; no comment or statement separator may appear outside a string.
use crate::astcanon::S;
use crate::engine::*;
use crate::real;
use crate::val::str_lit;
use rscel_to_sql::IntoSqlBuilder;
use serde_json::json;

pub const ID: &str = "C20";

// ---------------------------------------------------------------------------
// source trees

#[derive(Clone, Debug)]
enum X {
    Id(&'static str),
    Int(i64),
    UInt(u64),
    Dbl(&'static str),
    Bool(bool),
    Null,
    Str(String),
    Bin(&'static str, Box<X>, Box<X>),
    Not(usize, Box<X>),
    Neg(usize, Box<X>),
    Tern(Box<X>, Box<X>, Box<X>),
    Paren(Box<X>),
    List(Vec<X>),
    Map(Vec<(String, X)>),
    /// free call f(args) - also the type constructors
    Call(&'static str, Vec<X>),
    /// recv.f(args)
    Method(Box<X>, &'static str, Vec<X>),
    Field(Box<X>, &'static str),
    Index(Box<X>, Box<X>),
    // untranslatable
    Match(Box<X>),
    Bytes,
    FStr,
}

const BINOPS: [&str; 14] = ["||", "&&", "<", "<=", ">", ">=", "==", "!=", "in", "+", "-", "*", "/", "%"];
const TYPES: [&str; 9] = ["int", "uint", "float", "double", "string", "bool", "bytes", "timestamp", "duration"];

fn level(op: &str) -> usize {
    match op {
        "||" => 1,
        "&&" => 2,
        "<" | "<=" | ">" | ">=" | "==" | "!=" | "in" => 3,
        "+" | "-" => 4,
        _ => 5,
    }
}

impl X {
    /// precedence level of the node as CEL text: 0 ternary, 1..5 binary, 6 unary, 7 member/primary
    fn lvl(&self) -> usize {
        match self {
            X::Tern(..) | X::Match(_) => 0,
            X::Bin(op, ..) => level(op),
            X::Not(..) | X::Neg(..) => 6,
            X::Int(i) if *i < 0 => 6,
            _ => 7,
        }
    }
    fn cel_at(&self, min: usize) -> String {
        let s = self.cel();
        if self.lvl() < min {
            format!("({})", s)
        } else {
            s
        }
    }
    /// CEL text with the minimum parentheses the grammar needs (explicit Paren nodes add their own)
    fn cel(&self) -> String {
        match self {
            X::Id(n) => n.to_string(),
            X::Int(i) => format!("{}", i),
            X::UInt(u) => format!("{}u", u),
            X::Dbl(d) => d.to_string(),
            X::Bool(b) => format!("{}", b),
            X::Null => "null".into(),
            X::Str(s) => str_lit(s),
            X::Bin(op, a, b) => {
                let l = level(op);
                // left-associative: the right operand needs a strictly higher level
                format!("{} {} {}", a.cel_at(l), op, b.cel_at(l + 1))
            }
            X::Not(n, a) => format!("{}{}", "!".repeat(*n), a.cel_at(7)),
            X::Neg(n, a) => format!("{}{}", "-".repeat(*n), a.cel_at(7)),
            X::Tern(c, t, f) => format!("{} ? {} : {}", c.cel_at(1), t.cel_at(1), f.cel_at(0)),
            X::Paren(a) => format!("({})", a.cel()),
            X::List(l) => format!("[{}]", l.iter().map(|x| x.cel()).collect::<Vec<_>>().join(", ")),
            X::Map(m) => format!("{{{}}}", m.iter().map(|(k, v)| format!("{}: {}", str_lit(k), v.cel())).collect::<Vec<_>>().join(", ")),
            X::Call(f, args) => format!("{}({})", f, args.iter().map(|x| x.cel()).collect::<Vec<_>>().join(", ")),
            X::Method(r, f, args) => format!("{}.{}({})", r.cel_at(7), f, args.iter().map(|x| x.cel()).collect::<Vec<_>>().join(", ")),
            X::Field(r, f) => format!("{}.{}", r.cel_at(7), f),
            X::Index(r, i) => format!("{}[{}]", r.cel_at(7), i.cel()),
            X::Match(a) => format!("match {} {{ case 1: 2 }}", a.cel()),
            X::Bytes => "b'ab'".into(),
            X::FStr => "f'a{x}'".into(),
        }
    }
    fn translatable(&self) -> bool {
        match self {
            X::Match(_) | X::Bytes | X::FStr => false,
            X::Bin(_, a, b) | X::Index(a, b) => a.translatable() && b.translatable(),
            X::Not(_, a) | X::Neg(_, a) | X::Paren(a) | X::Field(a, _) => a.translatable(),
            X::Tern(a, b, c) => a.translatable() && b.translatable() && c.translatable(),
            X::List(l) | X::Call(_, l) => l.iter().all(|x| x.translatable()),
            X::Map(m) => m.iter().all(|(_, v)| v.translatable()),
            X::Method(r, _, l) => r.translatable() && l.iter().all(|x| x.translatable()),
            _ => true,
        }
    }
    /// the tree the SQL has to denote (Paren dropped; numbers by their digits; float and double casts alike)
    fn tree(&self) -> S {
        match self {
            X::Id(n) => S::atom(n),
            // a negative literal reads as a sign applied to its digits
            X::Int(i) if *i < 0 => S::node("neg", vec![S::Atom(format!("{}", -(*i as i128)))]),
            X::Int(i) => S::Atom(format!("{}", i)),
            X::UInt(u) => S::Atom(format!("{}", u)),
            X::Dbl(d) => S::Atom(d.to_string()),
            X::Bool(b) => S::Atom(format!("{}", b)),
            X::Null => S::atom("null"),
            X::Str(s) => S::Atom(format!("str:{}", s)),
            X::Bin(op, a, b) => S::node(op, vec![a.tree(), b.tree()]),
            X::Not(n, a) => (0..*n).fold(a.tree(), |t, _| S::node("!", vec![t])),
            X::Neg(n, a) => (0..*n).fold(a.tree(), |t, _| S::node("neg", vec![t])),
            X::Tern(c, t, f) => S::node("?:", vec![c.tree(), t.tree(), f.tree()]),
            X::Paren(a) => a.tree(),
            X::List(l) => S::node("list", l.iter().map(|x| x.tree()).collect()),
            X::Map(m) => S::node("map", m.iter().flat_map(|(k, v)| vec![S::Atom(format!("str:{}", k)), v.tree()]).collect()),
            X::Call(f, args) => {
                let name = if *f == "float" { "double" } else { f };
                let mut k = vec![S::atom(name)];
                k.extend(args.iter().map(|x| x.tree()));
                // a type constructor without argument is the cast of NULL, like T(null)
                if TYPES.contains(f) && args.is_empty() {
                    k.push(S::atom("null"));
                }
                S::node("call", k)
            }
            X::Method(r, f, args) => {
                let mut k = vec![S::node(".", vec![r.tree(), S::atom(f)])];
                k.extend(args.iter().map(|x| x.tree()));
                S::node("call", k)
            }
            X::Field(r, f) => S::node(".", vec![r.tree(), S::atom(f)]),
            X::Index(r, i) => S::node("[]", vec![r.tree(), i.tree()]),
            X::Match(_) | X::Bytes | X::FStr => S::atom("<untranslatable>"),
        }
    }
    fn strings(&self, out: &mut Vec<String>) {
        match self {
            X::Str(s) => out.push(s.clone()),
            X::Bin(_, a, b) | X::Index(a, b) => {
                a.strings(out);
                b.strings(out);
            }
            X::Not(_, a) | X::Neg(_, a) | X::Paren(a) | X::Field(a, _) | X::Match(a) => a.strings(out),
            X::Tern(a, b, c) => {
                a.strings(out);
                b.strings(out);
                c.strings(out);
            }
            X::List(l) | X::Call(_, l) => l.iter().for_each(|x| x.strings(out)),
            X::Map(m) => m.iter().for_each(|(k, v)| {
                out.push(k.clone());
                v.strings(out);
            }),
            X::Method(r, _, l) => {
                r.strings(out);
                l.iter().for_each(|x| x.strings(out));
            }
            _ => {}
        }
    }
    fn kind(&self) -> String {
        match self {
            X::Bin(op, ..) => format!("binary {}", op),
            X::Not(..) => "!".into(),
            X::Neg(..) => "neg".into(),
            X::Tern(..) => "?:".into(),
            X::Paren(_) => "parens".into(),
            X::List(_) => "list".into(),
            X::Map(_) => "map".into(),
            X::Call(f, a) if TYPES.contains(f) => format!("cast {}/{}", f, a.len()),
            X::Call(_, a) => format!("call/{}", a.len()),
            X::Method(_, _, a) => format!("method-call/{}", a.len()),
            X::Field(..) => "member".into(),
            X::Index(..) => "index".into(),
            X::Str(_) => "string".into(),
            _ => "atom".into(),
        }
    }
}

fn atoms() -> Vec<X> {
    vec![X::Id("a"), X::Id("b"), X::Int(1), X::UInt(3), X::Dbl("1.5"), X::Bool(true), X::Null, X::Str("s".into())]
}

/// Lazy, index-addressed space of all source trees with exactly `n` construct nodes over the
/// given leaves, operators and casts (nothing is materialised: `build(n, idx)` decodes an index).
pub struct TreeSpace {
    leaves: Vec<X>,
    ops: Vec<&'static str>,
    types: Vec<&'static str>,
    /// number of trees with exactly k construct nodes
    counts: Vec<u64>,
}

impl TreeSpace {
    fn new(leaves: Vec<X>, ops: &[&'static str], types: &[&'static str], maxn: usize) -> TreeSpace {
        let mut t = TreeSpace { leaves, ops: ops.to_vec(), types: types.to_vec(), counts: Vec::new() };
        for k in 0..=maxn {
            let c = t.count(k);
            t.counts.push(c);
        }
        t
    }
    fn unary_variants(&self) -> u64 {
        11 + self.types.len() as u64
    }
    fn binary_variants(&self) -> u64 {
        self.ops.len() as u64 + 6
    }
    /// ternary-like constructs only over small child spaces (keeps the space finite and dense)
    fn ternary_ok(&self, i: usize, j: usize, l: usize) -> bool {
        self.counts[i].saturating_mul(self.counts[j]).saturating_mul(self.counts[l]) <= 40_000
    }
    fn count(&self, k: usize) -> u64 {
        if k == 0 {
            return self.leaves.len() as u64 + 3 + self.types.len() as u64;
        }
        let mut c = self.unary_variants() * self.counts[k - 1];
        for i in 0..k {
            let j = k - 1 - i;
            c += self.binary_variants() * self.counts[i] * self.counts[j];
        }
        for i in 0..k {
            for j in 0..(k - i) {
                let l = k - 1 - i - j;
                if self.ternary_ok(i, j, l) {
                    c += 3 * self.counts[i] * self.counts[j] * self.counts[l];
                }
            }
        }
        c
    }
    fn build(&self, k: usize, mut idx: u64) -> X {
        if k == 0 {
            let nl = self.leaves.len() as u64;
            if idx < nl {
                return self.leaves[idx as usize].clone();
            }
            idx -= nl;
            return match idx {
                0 => X::List(vec![]),
                1 => X::Map(vec![]),
                2 => X::Call("f", vec![]),
                i => X::Call(self.types[(i - 3) as usize], vec![]),
            };
        }
        // unary-like
        let u = self.unary_variants() * self.counts[k - 1];
        if idx < u {
            let a = self.build(k - 1, idx / self.unary_variants());
            let v = idx % self.unary_variants();
            let b = Box::new(a.clone());
            return match v {
                0 => X::Not(1, b),
                1 => X::Not(2, b),
                2 => X::Neg(1, b),
                3 => X::Neg(2, b),
                4 => X::Paren(b),
                5 => X::List(vec![a]),
                6 => X::Map(vec![("k".into(), a)]),
                7 => X::Call("f", vec![a]),
                8 => X::Method(b, "m", vec![]),
                9 => X::Field(b, "g"),
                10 => X::Field(b, "end"),
                t => X::Call(self.types[(t - 11) as usize], vec![a]),
            };
        }
        idx -= u;
        for i in 0..k {
            let j = k - 1 - i;
            let seg = self.binary_variants() * self.counts[i] * self.counts[j];
            if idx < seg {
                let v = idx % self.binary_variants();
                let r = idx / self.binary_variants();
                let a = self.build(i, r / self.counts[j]);
                let b = self.build(j, r % self.counts[j]);
                let nops = self.ops.len() as u64;
                return if v < nops {
                    X::Bin(self.ops[v as usize], Box::new(a), Box::new(b))
                } else {
                    match v - nops {
                        0 => X::List(vec![a, b]),
                        1 => X::Map(vec![("k".into(), a), ("l".into(), b)]),
                        2 => X::Call("f", vec![a, b]),
                        3 => X::Call("int", vec![a, b]),
                        4 => X::Method(Box::new(a), "m", vec![b]),
                        _ => X::Index(Box::new(a), Box::new(b)),
                    }
                };
            }
            idx -= seg;
        }
        for i in 0..k {
            for j in 0..(k - i) {
                let l = k - 1 - i - j;
                if !self.ternary_ok(i, j, l) {
                    continue;
                }
                let seg = 3 * self.counts[i] * self.counts[j] * self.counts[l];
                if idx < seg {
                    let v = idx % 3;
                    let r = idx / 3;
                    let c = self.build(l, r % self.counts[l]);
                    let r = r / self.counts[l];
                    let b = self.build(j, r % self.counts[j]);
                    let a = self.build(i, r / self.counts[j]);
                    return match v {
                        0 => X::Tern(Box::new(a), Box::new(b), Box::new(c)),
                        1 => X::Call("f", vec![a, b, c]),
                        _ => X::Method(Box::new(a), "m", vec![b, c]),
                    };
                }
                idx -= seg;
            }
        }
        unreachable!("index beyond the tree space")
    }
}

// ---------------------------------------------------------------------------
// the reader of the emitted SQL dialect

#[derive(Clone, Debug, PartialEq)]
enum Tok {
    LP,
    RP,
    LB,
    RB,
    Comma,
    Cast,
    Arrow,
    ArrowText,
    Op(String),
    Word(String),
    Num(String),
    Str(String),
    /// a comment opener, a semicolon or anything else that must not occur outside a string
    Bad(String),
}

fn tokenize(sql: &str) -> Vec<Tok> {
    let c: Vec<char> = sql.chars().collect();
    let mut i = 0;
    let mut out = Vec::new();
    while i < c.len() {
        let ch = c[i];
        if ch.is_whitespace() {
            i += 1;
            continue;
        }
        let two: String = c[i..(i + 2).min(c.len())].iter().collect();
        let three: String = c[i..(i + 3).min(c.len())].iter().collect();
        if three == "->>" {
            out.push(Tok::ArrowText);
            i += 3;
        } else if two == "->" {
            out.push(Tok::Arrow);
            i += 2;
        } else if two == "--" || two == "/*" {
            out.push(Tok::Bad(two.clone()));
            i += 2;
        } else if two == "::" {
            out.push(Tok::Cast);
            i += 2;
        } else if two == "<=" || two == ">=" || two == "<>" {
            out.push(Tok::Op(two.clone()));
            i += 2;
        } else if ch == '\'' || ((ch == 'E' || ch == 'e') && i + 1 < c.len() && c[i + 1] == '\'') {
            // standard string: '' is a quote, backslash is literal; E'..': backslash escapes
            let escapes = ch != '\'';
            if escapes {
                i += 1;
            }
            i += 1;
            let mut s = String::new();
            let mut closed = false;
            while i < c.len() {
                if c[i] == '\'' {
                    if i + 1 < c.len() && c[i + 1] == '\'' {
                        s.push('\'');
                        i += 2;
                        continue;
                    }
                    closed = true;
                    i += 1;
                    break;
                }
                if escapes && c[i] == '\\' && i + 1 < c.len() {
                    let e = c[i + 1];
                    s.push(match e {
                        'n' => '\n',
                        't' => '\t',
                        'r' => '\r',
                        other => other,
                    });
                    i += 2;
                    continue;
                }
                s.push(c[i]);
                i += 1;
            }
            if closed {
                out.push(Tok::Str(s));
            } else {
                out.push(Tok::Bad("unterminated string".into()));
            }
        } else if ch.is_ascii_digit() {
            let st = i;
            while i < c.len() && (c[i].is_ascii_alphanumeric() || c[i] == '.' || ((c[i] == '+' || c[i] == '-') && (c[i - 1] == 'e' || c[i - 1] == 'E'))) {
                i += 1;
            }
            out.push(Tok::Num(c[st..i].iter().collect()));
        } else if ch.is_alphabetic() || ch == '_' {
            let st = i;
            while i < c.len() && (c[i].is_alphanumeric() || c[i] == '_') {
                i += 1;
            }
            out.push(Tok::Word(c[st..i].iter().collect()));
        } else {
            i += 1;
            out.push(match ch {
                '(' => Tok::LP,
                ')' => Tok::RP,
                '[' => Tok::LB,
                ']' => Tok::RB,
                ',' => Tok::Comma,
                '<' | '>' | '=' | '+' | '-' | '*' | '/' | '%' | '!' => Tok::Op(ch.to_string()),
                other => Tok::Bad(other.to_string()),
            });
        }
    }
    out
}

struct SP {
    t: Vec<Tok>,
    i: usize,
}

fn sql_type(words: &[String]) -> Option<(&'static str, usize)> {
    let w0 = words.first().map(|s| s.as_str());
    let w1 = words.get(1).map(|s| s.as_str());
    Some(match (w0, w1) {
        (Some("double"), Some("precision")) => ("double", 2),
        (Some("integer"), _) => ("int", 1),
        (Some("bigint"), _) => ("uint", 1),
        (Some("text"), _) => ("string", 1),
        (Some("boolean"), _) => ("bool", 1),
        (Some("bytea"), _) => ("bytes", 1),
        (Some("timestamp"), _) => ("timestamp", 1),
        (Some("interval"), _) => ("duration", 1),
        _ => return None,
    })
}

impl SP {
    fn peek(&self) -> Option<&Tok> {
        self.t.get(self.i)
    }
    fn next(&mut self) -> Option<Tok> {
        let r = self.t.get(self.i).cloned();
        self.i += 1;
        r
    }
    fn expect(&mut self, t: Tok) -> Result<(), String> {
        match self.next() {
            Some(x) if x == t => Ok(()),
            other => Err(format!("expected {:?}, found {:?} at token {}", t, other, self.i)),
        }
    }
    fn word_is(&self, w: &str) -> bool {
        matches!(self.peek(), Some(Tok::Word(x)) if x == w)
    }
    // OR < AND < comparison/in < + - < * / % < prefix < postfix
    fn expr(&mut self, min: usize) -> Result<S, String> {
        let mut lhs = self.prefix()?;
        loop {
            let (op, lvl): (String, usize) = match self.peek() {
                Some(Tok::Word(w)) if w == "OR" => ("||".into(), 1),
                Some(Tok::Word(w)) if w == "AND" => ("&&".into(), 2),
                Some(Tok::Word(w)) if w == "in" => ("in".into(), 3),
                Some(Tok::Op(o)) => match o.as_str() {
                    "<" | "<=" | ">" | ">=" => (o.clone(), 3),
                    "=" => ("==".into(), 3),
                    "<>" => ("!=".into(), 3),
                    "+" | "-" => (o.clone(), 4),
                    "*" | "/" | "%" => (o.clone(), 5),
                    _ => break,
                },
                _ => break,
            };
            if lvl < min {
                break;
            }
            self.next();
            let rhs = self.expr(lvl + 1)?;
            lhs = S::node(&op, vec![lhs, rhs]);
        }
        Ok(lhs)
    }
    fn prefix(&mut self) -> Result<S, String> {
        match self.peek() {
            Some(Tok::Op(o)) if o == "!" => {
                self.next();
                Ok(S::node("!", vec![self.prefix()?]))
            }
            Some(Tok::Op(o)) if o == "-" => {
                self.next();
                Ok(S::node("neg", vec![self.prefix()?]))
            }
            _ => self.postfix(),
        }
    }
    fn args(&mut self, close: Tok) -> Result<Vec<S>, String> {
        let mut v = Vec::new();
        if self.peek() == Some(&close) {
            self.next();
            return Ok(v);
        }
        loop {
            v.push(self.expr(0)?);
            match self.next() {
                Some(Tok::Comma) => continue,
                Some(t) if t == close => return Ok(v),
                other => return Err(format!("expected , or {:?}, found {:?}", close, other)),
            }
        }
    }
    fn postfix(&mut self) -> Result<S, String> {
        let mut s = self.primary()?;
        loop {
            match self.peek() {
                Some(Tok::Cast) => {
                    self.next();
                    let mut words = Vec::new();
                    let mut j = self.i;
                    while let Some(Tok::Word(w)) = self.t.get(j) {
                        words.push(w.clone());
                        j += 1;
                        if words.len() == 2 {
                            break;
                        }
                    }
                    if words.first().map(|w| w == "json").unwrap_or(false) {
                        // '{}'::json is the empty map
                        if s == S::Atom("str:{}".into()) {
                            self.i += 1;
                            s = S::node("map", vec![]);
                            continue;
                        }
                        return Err("::json on something else than '{}'".into());
                    }
                    match sql_type(&words) {
                        Some((name, n)) => {
                            self.i += n;
                            // NULL::type is the constructor without argument
                            s = if s == S::atom("null:cast") { S::node("call", vec![S::atom(name), S::atom("null")]) } else { S::node("call", vec![S::atom(name), s]) };
                        }
                        None => return Err(format!("unknown type after :: {:?}", words)),
                    }
                }
                Some(Tok::Arrow) | Some(Tok::ArrowText) => {
                    self.next();
                    match self.next() {
                        Some(Tok::Str(f)) => {
                            // `::` binds tighter than `->`: a cast written after the field name applies
                            // to the field name, not to the member access
                            if self.peek() == Some(&Tok::Cast) {
                                return Err("a :: cast directly after ->'field' applies to the field name in SQL".into());
                            }
                            s = S::node(".", vec![s, S::Atom(f)])
                        }
                        other => return Err(format!("expected a field name string after ->, found {:?}", other)),
                    }
                }
                Some(Tok::LP) => {
                    // a call: only directly after an identifier or a member access
                    let callable = matches!(&s, S::Atom(a) if a.starts_with("id:")) || matches!(&s, S::Node(o, _) if o == ".");
                    if !callable {
                        return Ok(s);
                    }
                    self.next();
                    let a = self.args(Tok::RP)?;
                    let callee = match s {
                        S::Atom(a) => S::Atom(a.trim_start_matches("id:").to_string()),
                        other => other,
                    };
                    let mut k = vec![callee];
                    k.extend(a);
                    s = S::node("call", k);
                }
                Some(Tok::LB) => {
                    self.next();
                    let i = self.expr(0)?;
                    self.expect(Tok::RB)?;
                    s = S::node("[]", vec![s, i]);
                }
                _ => break,
            }
        }
        // identifiers are marked until it is known that they are not called
        Ok(unmark(s))
    }
    fn primary(&mut self) -> Result<S, String> {
        match self.next() {
            Some(Tok::LP) => {
                let e = self.expr(0)?;
                self.expect(Tok::RP)?;
                Ok(e)
            }
            Some(Tok::Num(n)) => Ok(S::Atom(n)),
            Some(Tok::Str(s)) => Ok(S::Atom(format!("str:{}", s))),
            Some(Tok::Word(w)) => match w.as_str() {
                "NULL" => {
                    if self.peek() == Some(&Tok::Cast) {
                        Ok(S::atom("null:cast"))
                    } else {
                        Ok(S::atom("null"))
                    }
                }
                "TRUE" => Ok(S::atom("true")),
                "FALSE" => Ok(S::atom("false")),
                "ARRAY" => {
                    self.expect(Tok::LB)?;
                    Ok(S::node("list", self.args(Tok::RB)?))
                }
                "json_build_object" => {
                    self.expect(Tok::LP)?;
                    Ok(S::node("map", self.args(Tok::RP)?))
                }
                "case" => {
                    self.expect(Tok::LP)?;
                    let c = self.expr(0)?;
                    self.expect(Tok::RP)?;
                    self.expect(Tok::Cast)?;
                    self.expect(Tok::Word("bool".into()))?;
                    for w in ["when", "true", "then"] {
                        self.expect(Tok::Word(w.into()))?;
                    }
                    self.expect(Tok::LP)?;
                    let t = self.expr(0)?;
                    self.expect(Tok::RP)?;
                    self.expect(Tok::Word("else".into()))?;
                    self.expect(Tok::LP)?;
                    let f = self.expr(0)?;
                    self.expect(Tok::RP)?;
                    self.expect(Tok::Word("end".into()))?;
                    Ok(S::node("?:", vec![c, t, f]))
                }
                _ => Ok(S::Atom(format!("id:{}", w))),
            },
            other => Err(format!("unexpected token {:?} at {}", other, self.i)),
        }
    }
}

/// a type constructor without argument, wherever it stands, is the constructor applied to NULL
fn norm_casts(s: S) -> S {
    match s {
        S::Node(o, k) => {
            let mut k: Vec<S> = k.into_iter().map(norm_casts).collect();
            if o == "call" {
                // float and double name the same constructor
                if k[0] == S::atom("float") {
                    k[0] = S::atom("double");
                }
                if k.len() == 1 {
                    if let S::Atom(a) = &k[0] {
                        if TYPES.contains(&a.as_str()) {
                            k.push(S::atom("null"));
                        }
                    }
                }
            }
            S::Node(o, k)
        }
        a => a,
    }
}

fn unmark(s: S) -> S {
    match s {
        S::Atom(a) => {
            if a == "null:cast" {
                S::atom("null")
            } else {
                S::Atom(a.trim_start_matches("id:").to_string())
            }
        }
        S::Node(o, k) => S::Node(o, k.into_iter().map(unmark).collect()),
    }
}

fn read_sql(sql: &str) -> Result<(S, Vec<String>, Vec<String>), String> {
    let toks = tokenize(sql);
    let bad: Vec<String> = toks.iter().filter_map(|t| if let Tok::Bad(b) = t { Some(b.clone()) } else { None }).collect();
    let strs: Vec<String> = toks.iter().filter_map(|t| if let Tok::Str(s) = t { Some(s.clone()) } else { None }).collect();
    if !bad.is_empty() {
        return Ok((S::atom("<not parsed>"), strs, bad));
    }
    let mut p = SP { t: toks, i: 0 };
    let s = p.expr(0)?;
    if p.i != p.t.len() {
        return Err(format!("trailing tokens from {}: {:?}", p.i, &p.t[p.i..]));
    }
    Ok((norm_casts(unmark(s)), strs, bad))
}

// ---------------------------------------------------------------------------

fn translate(src: &str) -> Result<Result<String, String>, String> {
    let prog = match real::compile(src) {
        Ok(p) => p,
        Err(o) => return Err(format!("does not compile: {}", o.show())),
    };
    match real::guarded("to_sql", || {
        let ast = prog.ast().expect("ast");
        ast.into_sql_builder().and_then(|b| b.to_sql()).map_err(|e| format!("{:?}", e))
    }) {
        Ok(r) => Ok(r),
        Err(o) => Err(format!("PANIC {}", o.show())),
    }
}

/// the CEL text with the contents of its string literals removed
fn outside_strings(src: &str) -> String {
    let mut out = String::new();
    let mut in_str = false;
    let mut esc = false;
    for c in src.chars() {
        if in_str {
            if esc {
                esc = false;
            } else if c == '\\' {
                esc = true;
            } else if c == '\'' {
                in_str = false;
            }
        } else if c == '\'' {
            in_str = true;
        } else {
            out.push(c);
        }
    }
    out
}

/// the same CEL text in another layout: mode 1 puts a line break wherever the text has a blank,
/// mode 2 breaks the line after every comma and opening bracket and writes line breaks inside
/// string literals raw instead of as `\n`. String literals are otherwise left alone.
fn relayout(src: &str, mode: usize) -> String {
    let cs: Vec<char> = src.chars().collect();
    let mut out = String::new();
    let mut in_str = false;
    let mut i = 0;
    while i < cs.len() {
        let c = cs[i];
        if in_str {
            if c == '\\' && i + 1 < cs.len() {
                if mode == 2 && cs[i + 1] == 'n' {
                    out.push('\n');
                } else {
                    out.push(c);
                    out.push(cs[i + 1]);
                }
                i += 2;
                continue;
            }
            if c == '\'' {
                in_str = false;
            }
            out.push(c);
        } else {
            match c {
                '\'' => {
                    in_str = true;
                    out.push(c);
                }
                ' ' if mode == 1 => out.push('\n'),
                ',' | '(' | '[' | '{' if mode == 2 => {
                    out.push(c);
                    out.push_str("\n ");
                }
                _ => out.push(c),
            }
        }
        i += 1;
    }
    out
}

fn check_tree(acc: &mut Acc, x: &X, fam: &str) {
    let src = x.cel();
    let r = translate(&src);
    acc.eval();
    let site = x.kind();
    let case = |sql: &str| json!({"cel": src, "sql": sql});
    match r {
        Err(e) => {
            if e.starts_with("PANIC") {
                acc.class("panic");
                acc.violation(&format!("[{}] translation-panics", site), case(""), "SQL or an unsupported error".into(), e);
            } else {
                // the generator produced something the CEL parser rejects: machinery, not a verdict
                acc.class("cel-rejected");
                acc.count("generated CEL rejected by the parser (skipped)", 1);
            }
        }
        Ok(Err(e)) => {
            acc.class("unsupported");
            acc.nontrivial(&(fam, &src));
            if x.translatable() {
                acc.violation(&format!("[{}] translatable-construct-reported-unsupported", site), case(""), "SQL".into(), e);
            }
        }
        Ok(Ok(sql)) => {
            acc.class("sql");
            acc.nontrivial(&(fam, &src));
            if !x.translatable() {
                acc.violation(&format!("[{}] untranslatable-construct-produced-sql", site), case(&sql), "an unsupported error".into(), sql.clone());
                return;
            }
            // the layout of the source is no part of the expression
            for mode in 1..=2 {
                let src2 = relayout(&src, mode);
                if src2 == src {
                    continue;
                }
                let r2 = translate(&src2);
                acc.eval();
                let same = matches!(&r2, Ok(Ok(s2)) if *s2 == sql);
                if !same {
                    acc.violation(
                        &format!("[{}] translation-depends-on-the-layout ({})", site, if mode == 1 { "line breaks for blanks" } else { "line breaks after commas and brackets, raw line breaks in strings" }),
                        json!({"cel": src2, "cel_on_one_line": src, "sql_of_the_one_line_form": sql}),
                        sql.clone(),
                        format!("{:?}", r2),
                    );
                }
            }
            let want = x.tree();
            match read_sql(&sql) {
                Err(e) => acc.violation(&format!("[{}] sql-not-readable-in-the-emitted-dialect", site), case(&sql), want.show(), e),
                Ok((got, strs, bad)) => {
                    let mut ws = Vec::new();
                    x.strings(&mut ws);
                    ws.sort();
                    let mut gs = strs.clone();
                    // '{}'::json carries one string token of its own
                    let empty_maps = sql.matches("'{}'::json").count();
                    for _ in 0..empty_maps {
                        if let Some(p) = gs.iter().position(|s| s == "{}") {
                            gs.remove(p);
                        }
                    }
                    // member names are emitted as ->'name' string tokens
                    fn fields(x: &X, out: &mut Vec<String>) {
                        match x {
                            X::Field(r, f) => {
                                out.push(f.to_string());
                                fields(r, out);
                            }
                            X::Method(r, f, l) => {
                                out.push(f.to_string());
                                fields(r, out);
                                l.iter().for_each(|a| fields(a, out));
                            }
                            X::Bin(_, a, b) | X::Index(a, b) => {
                                fields(a, out);
                                fields(b, out);
                            }
                            X::Not(_, a) | X::Neg(_, a) | X::Paren(a) => fields(a, out),
                            X::Tern(a, b, c) => {
                                fields(a, out);
                                fields(b, out);
                                fields(c, out);
                            }
                            X::List(l) | X::Call(_, l) => l.iter().for_each(|a| fields(a, out)),
                            X::Map(m) => m.iter().for_each(|(_, v)| fields(v, out)),
                            _ => {}
                        }
                    }
                    let mut fs = Vec::new();
                    fields(x, &mut fs);
                    ws.extend(fs);
                    ws.sort();
                    gs.sort();
                    if !bad.is_empty() && bad.iter().all(|b| b == "--") && outside_strings(&src).contains("--") {
                        acc.violation(
                            "run-of-two-unary-minus emits-the-sql-comment-opener",
                            case(&sql),
                            "no comment opener outside a string".into(),
                            format!("tokens outside strings: {:?}", bad),
                        );
                    } else if !bad.is_empty() {
                        acc.violation(
                            &format!("[{}] literal-escapes-its-quoting (comment or separator outside a string)", site),
                            case(&sql),
                            "every CEL string is one SQL string token".into(),
                            format!("tokens outside strings: {:?}", bad),
                        );
                    } else if gs != ws {
                        acc.violation(
                            &format!("[{}] string-literal-content-changed", site),
                            case(&sql),
                            format!("string tokens {:?}", ws),
                            format!("string tokens {:?}", gs),
                        );
                    } else if got != want {
                        acc.violation(&format!("[{}] sql-denotes-a-different-tree", site), case(&sql), want.show(), got.show());
                    }
                }
            }
            if acc.wants_sample() {
                acc.sample(json!({"cel": src, "sql": sql, "tree": x.tree().show()}));
            }
        }
    }
}

pub struct Space {
    /// (tree space, node count, number of trees) segments, then the untranslatable list
    segs: Vec<(TreeSpace, usize, u64)>,
    untranslatable: Vec<X>,
    strs: Vec<String>,
}

fn hostile_strings(maxlen: usize) -> Vec<String> {
    let alpha = ["a", "'", "\"", "\\", "-", ";", "\n", "*", "/"];
    let mut out = vec![String::new()];
    let mut last = vec![String::new()];
    for _ in 0..maxlen {
        let mut next = Vec::new();
        for s in &last {
            for c in alpha {
                next.push(format!("{}{}", s, c));
            }
        }
        out.extend(next.iter().cloned());
        last = next;
    }
    out
}

/// field names spelled like words of the emitted SQL dialect
const SQLISH_FIELDS: [&str; 12] = ["end", "when", "then", "or", "and", "not", "array", "NOT", "CASE", "json", "integer", "bool"];

fn sqlish_tree(k: usize, f: &'static str) -> X {
    let base = || X::Field(Box::new(X::Id("a")), f);
    match k {
        0 => base(),
        1 => X::Field(Box::new(base()), "g"),
        2 => X::Method(Box::new(X::Id("a")), f, vec![X::Id("b")]),
        3 => X::Bin("==", Box::new(base()), Box::new(X::Int(1))),
        _ => X::Call("int", vec![base()]),
    }
}

/// negative int literals (the minimum int is one token with its sign) in 8 positions
/// ... and the extreme int/uint literals (a uint of 2^63 or more must not come out as a negative number)
const NEGATIVE_LITERALS: [i128; 7] = [-1, -5, i64::MIN as i128, i64::MAX as i128, 1 << 63, u64::MAX as i128, (1 << 63) - 1 + (1 << 64)];
fn negative_literal_tree(idx: u64) -> X {
    let lit = || {
        let v = NEGATIVE_LITERALS[(idx / 8) as usize];
        // entries of 2^63 and more are uint literals; the last one is the uint 2^63 - 1
        if v >= (1 << 64) { X::UInt((v - (1 << 64)) as u64) } else if v > i64::MAX as i128 { X::UInt(v as u64) } else { X::Int(v as i64) }
    };
    let a = || Box::new(X::Id("a"));
    match idx % 8 {
        0 => lit(),
        1 => X::Bin("-", a(), Box::new(lit())),
        2 => X::Bin("*", Box::new(lit()), a()),
        3 => X::Call("f", vec![lit(), X::Id("a")]),
        4 => X::Neg(1, Box::new(lit())),
        5 => X::List(vec![lit(), X::Int(1)]),
        6 => X::Bin("==", a(), Box::new(lit())),
        _ => X::Index(Box::new(X::Id("m")), Box::new(lit())),
    }
}

const STRING_POSITIONS: usize = 12;
fn string_position(k: usize, s: &str) -> X {
    let lit = || X::Str(s.to_string());
    match k {
        0 => lit(),
        1 => X::Bin("==", Box::new(X::Id("a")), Box::new(lit())),
        2 => X::Call("f", vec![X::Id("a"), lit()]),
        3 => X::List(vec![lit(), X::Int(1)]),
        4 => X::Map(vec![(s.to_string(), X::Int(1))]),
        5 => X::Map(vec![("k".to_string(), lit())]),
        6 => X::Call("int", vec![lit()]),
        7 => X::Index(Box::new(X::Id("m")), Box::new(lit())),
        8 => X::Call("f", vec![lit(), X::Id("a")]),
        9 => X::Call("f", vec![X::Id("a"), lit(), X::Id("b")]),
        10 => X::Method(Box::new(X::Id("a")), "m", vec![lit(), X::Id("b")]),
        _ => X::Method(Box::new(X::Id("a")), "m", vec![lit(), X::Bin("+", Box::new(lit()), Box::new(lit()))]),
    }
}

impl Space {
    pub fn new(t: Tier) -> Space {
        let mut segs: Vec<(TreeSpace, usize, u64)> = Vec::new();
        // full alphabet: <= 1 construct node (quick) / <= 2 (thorough)
        let full_n = t.pick(1, 2);
        for n in 0..=full_n {
            let ts = TreeSpace::new(atoms(), &BINOPS, &TYPES, full_n);
            let c = ts.counts[n];
            segs.push((ts, n, c));
        }
        // reduced alphabet (3 leaves, 5 operators, 2 casts): one node more
        let small_n = t.pick(2, 3);
        let ts = TreeSpace::new(vec![X::Id("a"), X::Int(1), X::Str("s".into())], &["||", "==", "in", "-", "*"], &["int", "string"], small_n);
        let c = ts.counts[small_n];
        segs.push((ts, small_n, c));
        // untranslatable constructs in every position
        let mut un = Vec::new();
        for u in [X::Match(Box::new(X::Id("a"))), X::Bytes, X::FStr] {
            un.push(u.clone());
            un.push(X::Bin("+", Box::new(X::Id("a")), Box::new(u.clone())));
            un.push(X::Bin("&&", Box::new(X::Paren(Box::new(u.clone()))), Box::new(X::Id("a"))));
            un.push(X::Call("f", vec![u.clone()]));
            un.push(X::Call("int", vec![u.clone()]));
            un.push(X::List(vec![X::Int(1), u.clone()]));
            un.push(X::Map(vec![("k".into(), u.clone())]));
            un.push(X::Tern(Box::new(X::Id("a")), Box::new(X::Paren(Box::new(u.clone()))), Box::new(X::Int(1))));
            un.push(X::Tern(Box::new(X::Id("a")), Box::new(X::Int(1)), Box::new(u.clone())));
            un.push(X::Method(Box::new(X::Id("a")), "m", vec![u.clone()]));
            un.push(X::Index(Box::new(X::Id("a")), Box::new(u.clone())));
            un.push(X::Not(1, Box::new(X::Paren(Box::new(u.clone())))));
        }
        Space { segs, untranslatable: un, strs: hostile_strings(t.pick(3, 4)) }
    }
    fn n_trees(&self) -> u64 {
        self.segs.iter().map(|s| s.2).sum::<u64>() + self.untranslatable.len() as u64
    }
    fn run_tree(&self, idx: u64, acc: &mut Acc) {
        let mut i = idx;
        for (ts, n, c) in &self.segs {
            if i < *c {
                check_tree(acc, &ts.build(*n, i), "trees");
                return;
            }
            i -= c;
        }
        check_tree(acc, &self.untranslatable[i as usize], "trees");
    }
    fn run_negative(&self, idx: u64, acc: &mut Acc) {
        check_tree(acc, &negative_literal_tree(idx), "negative-literals");
    }
    fn run_sqlish(&self, idx: u64, acc: &mut Acc) {
        let x = sqlish_tree((idx % 5) as usize, SQLISH_FIELDS[(idx / 5) as usize]);
        check_tree(acc, &x, "field-names");
    }
    fn run_string(&self, idx: u64, acc: &mut Acc) {
        let s = &self.strs[(idx / STRING_POSITIONS as u64) as usize];
        let x = string_position((idx % STRING_POSITIONS as u64) as usize, s);
        check_tree(acc, &x, "strings");
    }
}

pub fn replay_families(t: Tier) -> Vec<Family<'static>> {
    let sp: &'static Space = Box::leak(Box::new(Space::new(t)));
    vec![
        Family::new("trees", sp.n_trees(), move |i, a| sp.run_tree(i, a)),
        Family::new("strings", (sp.strs.len() * STRING_POSITIONS) as u64, move |i, a| sp.run_string(i, a)),
        Family::new("field-names", (SQLISH_FIELDS.len() * 5) as u64, move |i, a| sp.run_sqlish(i, a)),
        Family::new("negative-literals", (NEGATIVE_LITERALS.len() * 8) as u64, move |i, a| sp.run_negative(i, a)),
    ]
}

pub fn run(t: Tier) -> i32 {
    let mut rep = Report::new(ID, t, "exploration");
    let sp = Space::new(t);
    rep.rule = format!(
        "trees: all {} source trees with <= 1 (thorough: 2) construct nodes over 8 leaves and the full alphabet plus all with exactly 2 (thorough: 3) nodes over a reduced alphabet (3 leaves, 5 operators, 2 casts); constructs: 14 binary operators, ! and - runs of 1 and 2, ?:, parentheses, lists and maps of 0..2 entries, free calls with 0..3 arguments, the 9 type constructors with 0, 1 and 2 arguments, method calls with 0..2 arguments on any receiver (so calls alone, in member chains, after an index, followed by a member), member and index access; plus match / bytes / f-string in 12 positions each (must be reported unsupported). strings: all {} strings of length <= {} over {{a ' \" \\ - ; LF * /}} in 12 positions (alone, operand, last / first / middle call argument, list element, map key, map value, cast argument, index, method arguments first and in a sum); negative-literals: -1, -5 and the minimum int (one token with its sign) in 8 positions; field-names: 12 field and method names spelled like words of the emitted dialect (end, when, or, NOT, json, ...) in 5 positions. The SQL is read back by an independent tokenizer/parser for the emitted dialect with SQL precedences; the tree must equal the source tree (operators, operand order, grouping, function names, argument order, paths, casts), the multiset of string tokens must equal the CEL strings and member names, and no comment opener or semicolon may appear outside a string; every source is translated in two more layouts (a line break for every blank; a line break after every comma and opening bracket with the line breaks inside string literals written raw) and must give the identical SQL. Non-trivial = every case that compiles; distinct by source",
        sp.n_trees(),
        sp.strs.len(),
        t.pick(3, 4)
    );
    rep.run_family(Family::new("trees", sp.n_trees(), |i, a| sp.run_tree(i, a)));
    rep.run_family(Family::new("strings", (sp.strs.len() * STRING_POSITIONS) as u64, |i, a| sp.run_string(i, a)));
    rep.run_family(Family::new("field-names", (SQLISH_FIELDS.len() * 5) as u64, |i, a| sp.run_sqlish(i, a)));
    rep.run_family(Family::new("negative-literals", (NEGATIVE_LITERALS.len() * 8) as u64, |i, a| sp.run_negative(i, a)));
    rep.assumptions = vec![
        "the reader implements the SQL standard string rules (doubling of quotes, literal backslash) and accepts the E'..' form".into(),
        "the operator mapping is the one the translator uses (OR AND = <> ! and the nine casts); uint literals are compared by their digits".into(),
        "the Python binding's to_sql() is not built; it calls the same Rust function".into(),
    ];
    rep.finish()
}
