#!/bin/bash
# usage: tools/verify_seeded.sh <dir with patch.diff demo.rs>   -> confirms the seeded change in a scratch worktree
# prints: SUITE_WITH_CHANGE=<pass|fail> DEMO_WITH_CHANGE=<pass|fail> DEMO_WITHOUT=<pass|fail>
set -u
D="$1"
WT=${VERIFY_WT:-/tmp/wt/verify}
export CARGO_NET_OFFLINE=true CARGO_TARGET_DIR=${VERIFY_WT:-/tmp/wt/verify}-target
if [ ! -d "$WT" ]; then git -C /repo worktree add -q --detach "$WT" HEAD || exit 2; cp /repo/Cargo.lock "$WT/"; fi
cd "$WT" && git reset -q --hard && git clean -qfd 2>/dev/null; git checkout -q --detach "$(git -C /repo rev-parse HEAD)" && git reset -q --hard; [ "$(git rev-parse HEAD)" = "$(git -C /repo rev-parse HEAD)" ] || { echo "VERIFY_WORKTREE_NOT_AT_HEAD"; exit 4; }
cp /repo/Cargo.lock "$WT/" 2>/dev/null
if ! git apply "$D/patch.diff" 2>/dev/null; then git apply --3way "$D/patch.diff" >/dev/null 2>&1 || { echo "PATCH_DOES_NOT_APPLY"; exit 3; }; git reset -q; fi
S=$(cargo test --workspace --no-fail-fast --offline 2>&1 | grep -E "^test result" | awk '{p+=$4; f+=$6} END {print p" passed "f" failed"}')
DP=rscel/tests/demo.rs; PKG=rscel
[ -f "$D/demo_path.txt" ] && DP=$(head -1 "$D/demo_path.txt" | tr -d ' \r\n')
case "$DP" in extensions/to_sql/*) PKG=rscel-to-sql ;; wasm/*) PKG=$(grep -m1 '^name' wasm/Cargo.toml | sed 's/.*"\(.*\)".*/\1/') ;; esac
mkdir -p "$(dirname $DP)"; cp "$D/demo.rs" "$DP"
timeout 900 cargo test -p $PKG --test demo --offline >/tmp/wt/demo_with.log 2>&1; W=$?
git reset -q --hard; git clean -qfd 2>/dev/null; mkdir -p "$(dirname $DP)"; cp "$D/demo.rs" "$DP"
timeout 900 cargo test -p $PKG --test demo --offline >/tmp/wt/demo_without.log 2>&1; WO=$?
rm -f "$DP"
echo "SUITE_WITH_CHANGE=[$S] DEMO_WITH_CHANGE=$([ $W = 0 ] && echo pass || echo fail) DEMO_WITHOUT=$([ $WO = 0 ] && echo pass || echo fail)"
