#!/bin/bash
# usage: tools/try_seeded.sh <patch.diff> <ID> [quick|thorough]   -> applies the patch to /repo, runs the check, reverts
set -u
PATCH="$1"; ID="$2"; TIER="${3:-quick}"
cd /repo || exit 2
if [ -n "$(git status --short)" ]; then echo "/repo has uncommitted or untracked changes"; git status --short; exit 2; fi
if ! git apply --check "$PATCH" 2>/dev/null; then
  if ! git apply --3way --check "$PATCH" 2>/dev/null; then echo "PATCH DOES NOT APPLY: $PATCH"; exit 3; fi
  git apply --3way "$PATCH" >/dev/null 2>&1; git reset -q
else
  git apply "$PATCH"
fi
cd /verif
OUT=$(./check "$ID" "$TIER" 2>&1); RC=$?
echo "$OUT" | grep -E "^VIOLATION|^  key=|MACHINERY" | cut -c1-260 | head -8
echo "exit=$RC"
cd /repo && git checkout -q -- . && git clean -qfd rscel rscel-macro extensions wasm python 2>/dev/null
[ -z "$(git status --short)" ] || { echo "WARNING: /repo is not clean after reverting the seeded change:"; git status --short; }
# NOTE: the binaries in /verif/target were built from the CHANGED tree; ./check rebuilds them before
# every run, but an ad-hoc `target/checked/rscel-mc EVAL` needs `./check --build` first
exit $RC
