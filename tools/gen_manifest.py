#!/usr/bin/env python3
"""Regenerates /verif/MANIFEST.json from the table below (keeps it schema-valid)."""
import json, os, subprocess
HERE = os.path.dirname(os.path.dirname(os.path.abspath(__file__)))

ALL = ["C%02d" % i for i in range(1, 21)]

# id -> (category, technique, text, note, design_ref)
CHECKS = {
 "C01": ("exploration",
         "bounded exhaustive enumeration: token strings up to 4/5 tokens, operators and built-ins over a boundary pool, nesting ladders in isolated child processes",
         "Quick: all 6.4 M space-joined strings of 1..4 tokens over a 50-token alphabet (thorough: 1..5, 319 M), every operator over all ordered pairs of a 53-value boundary pool in literal and bound forms, every built-in function/macro/type name found in the repository's tables called as function and as method with every argument tuple of arity 0..2 (pool) and 3 (thorough: 4) over a 13-value pool plus 8 macro shapes, and 24 nesting constructs (brackets, calls, macros, f-strings, match, unary runs, postfix chains and a left-nested chain per binary operator class) at depths 1..65536, each rung in its own child process, in two build profiles and on 8 MiB and 2 MiB stacks. Oracle: a value, an error or a syntax error - never a panic (caught at the API boundary), abort (signal) or hang. Complete for these bounds.",
         "Trusted: catch_unwind + process exit status as observers. Inputs beyond the bounds are not explored. Cyclic program graphs are covered by C12's check. A known finding is keyed by construct, profile, stack size and depth class.",
         "DESIGN.md section 3, C01"),
 "C02": ("exploration",
         "bounded exhaustive enumeration of flat operator sequences with prefix/postfix decorations, each parsed by an independent table-driven reference parser and compared with the canonicalised public syntax tree in 9 renderings plus evaluation",
         "Every flat sequence operand (op operand)^k, k <= 3/4, over the 14 binary operators and ? : (16 symbols), plain, with each of 29 prefix-run x postfix-chain decorations on one operand at a time and (k <= 1/2) on all operands at once; the canonical form of Program::ast() must equal the reference tree in 9 renderings (as is / parenthesised per the reference tree / doubly parenthesised x no blanks / single blanks / newline-tab runs) and evaluation under an int and a bool environment - also with every subset of the operands written as literals (incl. a hexadecimal literal ending in e, in three layouts) and under boundary values (minimum/maximum int, a uint, 2^32) - must equal the reference evaluation of the reference tree; sequences the grammar gives no structure must be rejected. Complete for these bounds only.",
         "Trusted: the reference parser in c02.rs as the reading of the CEL grammar; call arguments are compared in source order.",
         "DESIGN.md section 3, C02"),
 "C03": ("exploration",
         "bounded exhaustive enumeration of operand pairs x operators x literal/bound forms x build profiles against an exact i128/IEEE reference model",
         "Every ordered pair of a boundary grid (quick 75 values, thorough 609: all +-2^k, +-2^k+-1, uint edges, 26 doubles incl. NaN/inf/-0/subnormals, one value per other type) under + - * / % and unary minus, in all four literal/bound forms and in two build profiles, plus (a op b) op c and a op (b op c) over all triples of a 12-value grid x 25 operator pairs x 8 forms, is executed on the real compiler+VM and compared with exact arithmetic. Complete for the grid; says nothing about operands outside it.",
         "Trusted: hardware IEEE-754 doubles, Rust i128 arithmetic, the harness reference model (refmodel.rs). double%double and time arithmetic are left unspecified.",
         "DESIGN.md section 3, C03"),
 "C04": ("exploration",
         "bounded exhaustive enumeration of value pairs (laws + reference order), all triples of the observed < matrix, all short lists and argument tuples with duplicates",
         "Every ordered pair of a 109/209-value grid (all numeric cross-type pairs at the int/uint/2^53 boundaries, NaN, -0.0, strings, bytes, bools, null, types, timestamps, durations, nested lists/maps) is executed under == != < <= > >= in bound and literal form and judged against the algebraic laws and one reference order; transitivity is scanned over all n^3 triples of the observed matrix; sort is run on all lists of length <=4/<=6 with duplicates over 8 alphabets, min/max on all tuples of 1..4/5 arguments. Complete for these bounds only.",
         "Trusted: the reference order (i128 for int/uint, nearest double for int-vs-double, bytewise for strings). == between unrelated types only has to be symmetric/complementary; bool-vs-number ordering unspecified.",
         "DESIGN.md section 3, C04"),
 "C05": ("exploration",
         "bounded exhaustive enumeration of logical/conditional expression trees over an atom set with call-recording functions, compared (outcome and exact call log) with a reference lazy evaluator",
         "Every fully parenthesised tree over || && ?: ! with <=3 internal nodes and <=4 leaves plus every shape with exactly 5 leaves over 6 atoms (thorough: <=4 nodes/<=4 leaves and <=3 nodes/<=5 leaves over all atoms) with every leaf drawn from 12/14 atoms (literal and bound true/false, truthy/falsy non-bools, a foldable failure, a run-time failure, an unbound name, functions that record their call and return true/false/an error) is executed; the result and the exact sequence of recorded calls must equal the reference lazy evaluator. Every match with 0..2/3 cases over 7 patterns x 5 arms x 11 scrutinees (literal and bound), and a truthiness table of 35 values of every type x 18 contexts (operators, !, conditions, macro predicates over list and map receivers, bool()) x literal/bound. Complete for these bounds only.",
         "Trusted: the reference evaluator (c05.rs) as the reading of the statement; failure kinds are not compared; matches whose pattern comparison involves unrelated types are totality-only; bool(s) on the documented literal spellings is a conversion.",
         "DESIGN.md section 3, C05"),
 "C06": ("exploration",
         "bounded exhaustive enumeration of lists, map literals with repeated keys, indices, probes and string/bytes pairs in literal, partly bound and bound forms against a Vec/BTreeMap reference",
         "All lists of length <=3/5 over 9 elements (one per type, nested list and map included) in 3 forms (folded literal, literal of bound variables, bound) with value, size and l[i] for every int in [-size-2, size+2], the int/uint extremes, every uint up to size+1 and 8 non-integer indices (literal and bound); membership of 17 probes in every list of length <=2; all ordered pairs of lists of length <=2 under +; all map literals with <=3/5 entries over keys {a, b, '', size} with repetition (one stored value is null) in n+4 forms (constant, each single value variable, all values variable, variable keys, bound map) with m[k], m.k (also with variables named like the fields bound), k in m for present, absent and non-string keys; substring-in, + and size for all strings of length <=3/4 over {a, b, e-acute} x needles of length <=2; bytes pairs; `in` and `+` over all ordered pairs of one value per type outside their domains. Complete for these bounds only.",
         "Trusted: the Vec/BTreeMap reference in c06.rs. Membership across numeric types, indexing of strings/bytes and size of maps are not fixed by the statement.",
         "DESIGN.md section 3, C06"),
 "C07": ("exploration",
         "bounded exhaustive enumeration of (list, macro form, body) cells with call-recording bodies against the defining folds; every insertion order and construction path of small maps for the key-order part",
         "All lists of length <=5/6 over {0,1,2}, all 0/1 lists up to length 8/10 and lists of length 16..64 (thorough: every length 11..64) with at most one/two 1s x 74 macro forms (all, exists, exists_one, filter x 11 bodies; map/2 x 4; map/3 x 20; reduce x 6 - bodies read the loop variable, an outer variable, a stored program, inner macros re-using the name or reading the outer loop variable, a call-recording function, fail at one element, or read an unbound name) x literal/bound list x outer binding of the loop-variable name absent/100 x the name read before/after the macro: result and exact call log (visiting order, stopping point) equal the fold; caller's binding unchanged. Every non-empty subset of 4 keys x 5 map macro forms with the map built in every insertion order by 4 construction paths, twice: one fixed key order; the same key sets under 4 macro forms whose body fails with a different error class on different keys, four fresh programs each: the outcome does not depend on the map instance. All lists of length <=3 over 10 elements of every type x 9 macro forms; all macro forms with programs stored under the loop-variable names. Complete for these bounds only.",
         "Trusted: the folds in c07.rs. Sortedness of the key order is not demanded.",
         "DESIGN.md section 3, C07"),
 "C08": ("exploration",
         "bounded exhaustive enumeration of field paths x binding configurations x contexts and of coalesce argument lists with call-recording arguments against a two-class (absent / other failure) lattice",
         "Field paths of depth 0..4 in 4 spellings x every binding configuration (chain stops at any level: root unbound, field missing, null, int, string, list, empty map; or reaches a null/value/map leaf) x has() in 9 contexts and through a loop variable and coalesce(e, 'dflt') in 5 contexts and through a loop variable; every coalesce argument list of length 0..4/6 over 14 item kinds (present, null, unbound, missing field/index, null field, foldable and run-time division by zero, type error, bad index, call-recording present/null) in 4 contexts with the exact set of evaluated arguments; has() over each item; bare identifiers spelled like built-in functions and macros (unbound / bound / null) in all contexts. Complete for these bounds only.",
         "A field looked up on a non-map value may count as absent or other; only consistency between has, coalesce and all contexts is demanded there.",
         "DESIGN.md section 3, C08"),
 "C09": ("exploration",
         "bounded exhaustive differential enumeration: every template x every hole-value tuple x every subset of holes rendered as literal instead of bound variable x one hole left unbound; all renderings of one case must agree",
         "about 220 expression templates with 1..3 holes (every operator, ?:, match, list/map construction incl. repeated keys, index, member, type constructors, built-ins with constant and partly constant arguments, has/coalesce, every macro and every name of the function table, foldable calls around constructs that absorb failures, constant failures next to holes, run-time-only macros nested in collections with a hole in the receiver so that one rendering cannot be folded) x every tuple of hole values from a 15/37-value pool x (all holes bound | hole j left unbound) x every subset of the bound holes written as a literal: the all-variable rendering runs entirely in the VM, the all-literal one entirely in the compiler; all must give the same value bit for bit or all fail in the same absent/other class. 17 programs reading the clock (free and receiver form, up to three blocks deep) are compiled once and executed three times 12 ms apart (strictly later results, no timestamp constant in the bytecode). Complete for these bounds only.",
         "No third oracle: the comparison is differential. Assumes the wall clock does not step back by 5 ms between observations. Built-in functions are not rebound by the caller (as the property states).",
         "DESIGN.md section 3, C09"),
 "C10": ("model_checking",
         "explicit-state exploration of an abstract stack machine (block, pc, height) over all paths of every emitted block, bound to the implementation by replaying real VM traces (hook) against the model; exhaustive enumeration of short instruction sequences against a reference small-step VM",
         "For 12.6k/0.3M generated programs (C09's templates in every literal/variable mask, all || && ?: ! trees with <=2/3 internal nodes over 4 atoms, match with 0..2/3 cases x 6 patterns x 6 arms x 4 scrutinees, f-strings, macros with branching bodies, chains) every block incl. nested code blocks is explored over ALL paths: every reachable (pc, height) state, jump targets in range and forward, no pop from an empty stack, one height per pc, height 1 at the end. Every real execution under every assignment of up to 3 variables over 4 values is replayed against the model (same heights, only model edges). All instruction sequences of length 1..3/4 over 8 plain instructions (incl. push of an error value) and jmp/jmp-if with every forward distance and 3 out-of-range distances are loaded through the public deserialiser and compared with a reference VM. Evidence reports states, transitions, blocks, traces validated and model edges covered.",
         "Trusted: the trace hook (feature rscel_verif). A disagreement between the stack-effect table and the VM is a machinery error (exit 2), not a verdict.",
         "DESIGN.md section 3, C10"),
 "C11": ("model_checking",
         "explicit-state search over operation histories whose transitions are executed on the real CelContext/BindContext objects (states re-derived by replaying the history), deduplicated breadth-first search plus every history up to a depth without deduplication, against a map-based reference model and freshly built objects",
         "Model: two contexts (3 program names, 11 colliding sources) and two binding sets (2 variables, 4 values); 21 operations (add/replace, bind/rebind, clone context, clone bindings, exec, inspect). Breadth-first search to depth 6/12 deduplicated on the canonical abstract state with every transition executed on real objects and every successor checked on arrival; every history of length 1..4/5 (204k / 4.3M) without deduplication; an interference sweep (each of 126 programs over regex patterns, zones, units, durations after all others ran on the same thread). After every history: the real objects hold exactly the model state (source, bytecode equal to a fresh compile, bindings), every stored program under both binding sets executed repeatedly equals freshly built objects holding the same abstract state (built through the other construction path), every exec inside the history gave what the state before it determines. Evidence reports states, transitions, traces validated.",
         "Schedules: rscel has no shared mutable state and no synchronisation (audit re-run by the check, hits listed in the evidence), so controlled-scheduler exploration would see one schedule; the thread dimension is covered only by a free-running 16-thread differential labelled as not exhaustive.",
         "DESIGN.md section 3, C11"),
 "C12": ("model_checking",
         "explicit-state enumeration of all reference graphs between named programs (every edge through every referencing construct) and of name-collision configurations, executed on the real context; graphs with a cycle and long chains run in isolated child processes on two stack sizes and two build profiles",
         "All subsets of {variable, stored program} behind identifiers v and int in 8 contexts, of {bound function, macro} in call position for g and int, field vs method, rebinding/re-adding through bind_param and the JSON entry point in both orders; ALL reference graphs with out-degree <= 1 on 3 programs x 9 core constructs and 2 programs x all 18 constructs (thorough: 3 x 18 and 4 x 9; 23k / 2.0M graphs) where each edge goes through a referencing construct (bare identifier, arithmetic operand, call argument, has, coalesce, f-string, ?: branch and every macro site: map over list and map receivers, map range, map/3, filter over list and map, all, exists, exists_one, reduce step and seed): acyclic -> value by substitution, cycle reachable from the start -> an error, every cyclic graph run in child processes (checked and dev profile, 8 MiB main stack and 2 MiB thread stack): never an abort; chains of length 1..64 through each of the 18 constructs, plain and with a 1- and a 64-element loop inside the middle link; 711 JSON values of depth <= 2 bound from JSON vs directly. Complete for these bounds only.",
         "A case counts as an abort when the child dies between its begin and end markers. `m.g` without a call when only a method exists is not fixed.",
         "DESIGN.md section 3, C12"),
 "C13": ("exploration",

         "bounded exhaustive enumeration of literal spellings whose denoted value the generator knows by construction",
         "All boundary ints/uints (every +-2^k, +-2^k+-1) in decimal and 4 hex spellings with u/U, the first out-of-range magnitudes, doubles over all finite exponents x 10 mantissa patterns x up to 7 spellings (thorough: 245k), all strings of length <=2/<=3 over 11 hostile characters x 7 escape forms x quotes x prefixes (thorough: 971k), all 256 bytes in every spelling, and a rejection set (all proper prefixes of every escape form, surrogates, >10FFFF). Each literal is compiled and evaluated; the result must equal the spelled value bit for bit or be a syntax error.",
         "Trusted: std float formatting round-trips; unknown escapes / leading zeros / exponent overflow are not generated (unspecified).",
         "DESIGN.md section 3, C13"),
 "C14": ("exploration",
         "bounded exhaustive enumeration of (value, constructor, literal/bound form) cells, round-trip equations and f-string segment sequences against a reference conversion table",
         "Every value of the numeric boundary grid, of a string grid (renderings of every grid number, signs, blanks, separators, exponent forms, non-ASCII digits, out-of-range digit strings, bool literals, timestamps, durations), valid and invalid UTF-8 bytes and one value per other type is passed to each of the 10 constructors, bound and literal, and compared with a reference conversion (plus type(T(x)) == T); the round-trip equations are evaluated inside CEL over dense grids and all double exponents; every f-string of 1..3/4 segments over 20 segment kinds and both quote styles is compared with the concatenation the implementation itself computes. Complete for these grids only.",
         "Trusted: std float parsing/printing. NaN/negative double to integer, '+1', 'inf', '.5', string() of bool/list/map/null are left unspecified; dyn is the identity.",
         "DESIGN.md section 3, C14"),
 "C15": ("exploration",
         "bounded exhaustive enumeration of (string, needle) pairs, regex x string x template cells, numeric grid cells and argument-type tuples against naive reference implementations",
         "All strings of length <=3/4 over {a,b,A,blank,e-acute,E-acute,sharp-s,dotted-I} x all needles of length <=2 for the 14 searching/splitting/replacing functions, all strings of length <=2/3 x needles <=2 over 10 characters whose lower-case form changes the UTF-8 length (KELVIN SIGN, capital sharp s, dotted capital I, ANGSTROM SIGN and what they fold to) for the six containment functions in bound and literal form, splitAt at every offset, 14 regex patterns x all strings of length <=2/3 x 5 templates against the regex crate, the 8 math functions over the numeric grid (pow over all pairs of 100 values) against exact i128/IEEE references, and every documented function x every argument-type tuple of arity 0..3/4 over a one-value-per-type pool (undocumented shapes must fail). Complete for these bounds only.",
         "Trusted: Rust's case mapping, the regex crate as the definition of regex semantics, IEEE hardware. Empty needles, sqrt of negative ints, rounding outside the int range and the undocumented call form are unspecified. Two known findings (null treated as absent by the overload dispatch).",
         "DESIGN.md section 3, C15"),
 "C16": ("exploration",
         "bounded exhaustive enumeration of (instant, zone, accessor) cells, (instant, duration) law pairs and unit pairs/triples against own calendar arithmetic and exact unit definitions",
         "Every boundary instant (year 1, leap edges, epoch, US/EU DST transition seconds, 9999, chrono's ends) x 4 sub-second parts x every zone name of the tz database (quick: every 8th plus unusual ones) x the 10 accessors against civil arithmetic computed by the check; unknown zones; signed boundary durations; the three arithmetic laws, order and range errors over all pairs; every accepted unit spelling pair x 8 magnitudes x int/uint/double and all unit triples. Complete for these grids only.",
         "Trusted: chrono-tz's zone offsets; 7-digit unit constants accepted within 2e-6 relative. Known finding: getDayOfWeek(zone) is one-based (pinned by a repository test).",
         "DESIGN.md section 3, C16"),
 "C17": ("exploration",
         "bounded exhaustive enumeration of (syntactic position, nested position, filler) programs whose free variables and identifiers the generator knows by construction",
         "55 syntactic positions (operands of every operator class, call arguments and receivers, macro ranges/bodies/nested bodies/predicates, reduce seed and step, f-string segments, index expressions, map keys and values, list elements, match scrutinees/patterns/arms, ternary conditions and branches incl. untaken ones, has/coalesce arguments, member chain roots, parentheses) x 6 fillers, all ordered pairs of positions x fillers (thorough: all triples, 0.7M programs): Free(E) in params(E) in Idents(E); binding every reported name leaves no free variable unbound; additionally binding every unreported name never changes the result; filter_from_bindings removes exactly the names bound as variable (every subset of up to 2), function or macro. Complete for these bounds only.",
         "Loop variables, function names and field names may be reported; only names that do not occur in the source are excluded.",
         "DESIGN.md section 3, C17"),
 "C18": ("exploration",
         "bounded exhaustive enumeration of token sequences x whitespace layouts with a walk over every node of the public syntax tree, and of all single-token edits for the error locations",
         "15.4k/0.5M token sequences (every flat operator sequence with <=1/2 operators, plain and with 29 prefix/postfix decorations on one operand, operands partly string literals with 2- and 4-byte characters, plus 30 structural sources) x 6 whitespace policies x 4 paddings: every expression node has a span inside the source, inside its parent and disjoint from its siblings, the root spans the trimmed source, the spanned text compiled alone gives the same canonical subtree; every token span is increasing, non-overlapping and re-lexes to the same token. Every single-token deletion, duplication, replacement by each of 12 tokens and truncation of those sequences in 3 layouts (8.4M/... edited sources): a syntax-error location has line < number of lines and column <= the length of that line; the same for every one-character deletion, truncation, insertion and replacement (14 characters incl. line break, quotes, backslash, braces) of 22 sources whose tokens have inner structure (escapes, raw/triple-quoted strings, f-string holes, hex/exponent numbers) and every pair (line break anywhere, insertion anywhere). Complete for these bounds only.",
         "Lines/columns count characters from 0. Spans of match patterns and of the auxiliary !/- list nodes are excluded.",
         "DESIGN.md section 3, C18"),
 "C19": ("exploration",
         "bounded exhaustive enumeration of generated and constant-rich programs x {serde_json, bincode} x bindings, differential between the original and the round-tripped program",
         "13k/0.3M programs: the C10 program set (every ByteCode variant, nested code blocks for calls, macros and f-strings) plus 428 constant-rich programs (every serialisable value variant with boundary payloads - int/uint extremes, +-0.0, +-inf, NaN, subnormals, strings with quotes/NUL/non-BMP, all 256 bytes, nested lists/maps, types, timestamps and durations at millisecond resolution incl. negative and extreme - and every error constant the folder produces, each alone and inside a list, a map, a comparison, a macro, a ternary, a coalesce) in both formats: serialization and deserialization succeed, source and parameter set equal, a second round trip has the same bytes, and both programs give the same value or the same error kind under 5 bindings (1, 'a', true, 0, unbound), a program with a map constant being read back 8 times from the same bytes (folded maps of 2 and 12 keys under filter/map bodies that fail differently per key included); every alternation of two of 9 nesting constructs at every depth the parser accepts. Complete for this program set only.",
         "Sub-millisecond time constants are outside the statement. For programs reading the clock only the outcome class is compared. The Python/WASM entry points are not built; they call the same serde implementations.",
         "DESIGN.md section 3, C19"),
 "C20": ("exploration",
         "bounded exhaustive enumeration of source trees over the translatable subset and of hostile string literals in every string position; the emitted SQL is read back by an independent tokenizer/parser for the emitted dialect and compared with the source tree",
         "All source trees with <=1/2 construct nodes over 8 leaves and the full alphabet (14 binary operators, ! and - runs, ?:, parentheses, lists, maps, free calls with 0..3 arguments, 9 type constructors with 0..2 arguments, method calls on any receiver, member and index access) plus all trees with exactly 2/3 nodes over a reduced alphabet (475k / 171M, enumerated lazily by index), match/bytes/f-string in 12 positions each, and all 820/7381 strings of length <=3/4 over {a ' \" \\ - ; LF * /} in 12 positions, and 12 field/method names spelled like words of the emitted dialect. The SQL is tokenised by the SQL standard string rules and parsed with SQL precedences (:: [] -> call tightest, then ! -, * / %, + -, comparisons/in, AND, OR): the tree must equal the source tree, the multiset of string tokens must equal the CEL strings and member names, no comment opener or semicolon outside a string; every source is translated in two more layouts (line breaks for blanks; line breaks after commas/brackets with raw line breaks inside strings) and must give the identical SQL; untranslatable constructs must be reported unsupported, never a panic. Complete for these bounds only.",
         "Trusted: the reader in c20.rs as the meaning of the emitted dialect. Known finding: --x is emitted as the comment opener -- (pinned by a repository test).",
         "DESIGN.md section 3, C20"),
}

NOT_YET = "check not built yet in this revision of /verif (work in progress; see DESIGN.md section 3 for the planned bounded-exhaustive check)"

def main():
    hooks_commits = subprocess.run(["git", "-C", "/repo", "log", "--format=%h", "--grep=^verif hook"],
                                   capture_output=True, text=True).stdout.split()
    checks = []
    for pid in ALL:
        if pid not in CHECKS:
            continue
        cat, tech, text, note, ref = CHECKS[pid]
        checks.append({
            "property_id": pid,
            "quick_cmd": "./check %s quick" % pid,
            "thorough_cmd": "./check %s thorough" % pid,
            "evidence_file": "/verif/evidence/%s.json" % pid,
            "replay_cmd_template": "./check %s --replay {path}" % pid,
            "engine": "rscel-mc",
            "level_claimed": {"category": cat, "text": text, "design_ref": ref},
            "level_note": note,
            "technique": tech,
        })
    m = {
        "version": 1,
        "setup_cmd": "./check --build",
        "hooks": {
            "guard": "cargo feature rscel_verif on crate rscel",
            "enable": "the harness crate /verif/harness depends on rscel by path (/repo/rscel) with features=[\"rscel_verif\"]; every check runs `cargo build` first, so it rebuilds from /repo's working tree",
            "baseline_off_cmd": "cd /repo && cargo test --workspace --no-fail-fast --offline",
            "source_commits": hooks_commits,
            "add_only": True,
        },
        "engines": [{
            "name": "rscel-mc",
            "path": "/verif/harness",
            "serves_properties": sorted(CHECKS.keys()),
            "kind_free_text": "hand-rolled bounded-exhaustive explorer in Rust: index-addressed case spaces enumerated completely by 16 workers, every case executed on the real rscel through its public API under catch_unwind and compared with a reference model; explicit-state searches for C10/C11/C12",
        }],
        "checks": checks,
        "notes": "exit codes: 0 held, 1 VIOLATION (replay file written under /verif/replays/<id>/), 2 machinery error. Known findings: /verif/known_findings.txt.",
        "not_applicable": [{"property_id": p, "reason": NOT_YET} for p in ALL if p not in CHECKS],
    }
    with open(os.path.join(HERE, "MANIFEST.json"), "w") as f:
        json.dump(m, f, indent=1)
        f.write("\n")

if __name__ == "__main__":
    main()
