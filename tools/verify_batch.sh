#!/bin/bash
# usage: tools/verify_batch.sh <ID>   -> verifies every /tmp/seeded/<ID>/m*/ in a scratch worktree; result lines in /tmp/seeded/<ID>/verify.txt
ID="$1"
OUT=${SEEDED_BASE:-/tmp/seeded}/$ID/verify.txt
: > "$OUT"
for d in ${SEEDED_BASE:-/tmp/seeded}/$ID/m*/; do
  [ -f "$d/patch.diff" ] || continue
  r=$(/verif/tools/verify_seeded.sh "$d" 2>&1 | tail -1)
  echo "$(basename $d) $r" >> "$OUT"
done
echo DONE >> "$OUT"
