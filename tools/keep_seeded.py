#!/usr/bin/env python3
"""usage: keep_seeded.py <ID> <mK> <detected_by: e.g. 'C04 quick' or 'MISSED'> <needs...>
copies /tmp/seeded/<ID>/<mK>/{patch.diff,demo.rs,notes.md} to /verif/seeded/<ID>/<mK>/ and writes meta.json"""
import sys, os, shutil, json, subprocess
pid, mk, det = sys.argv[1], sys.argv[2], sys.argv[3]
needs = " ".join(sys.argv[4:])
base = os.environ.get("SEEDED_BASE", "/tmp/seeded")
prefix = os.environ.get("SEEDED_PREFIX", "")
src = f"{base}/{pid}/{mk}"
dst = f"/verif/seeded/{pid}/{prefix}{mk}"
os.makedirs(dst, exist_ok=True)
for f in ("patch.diff", "demo.rs", "notes.md", "demo_path.txt", "patch.orig.diff"):
    if os.path.exists(os.path.join(src, f)):
        shutil.copy(os.path.join(src, f), dst)
ver = ""
vt = f"{base}/{pid}/verify.txt"
if os.path.exists(vt):
    for l in open(vt):
        if l.startswith(mk + " "):
            ver = l.strip()[len(mk)+1:]
head = subprocess.run(["git", "-C", "/repo", "rev-parse", "--short", "HEAD"], capture_output=True, text=True).stdout.strip()
meta = {
    "property": pid,
    "breaks": open(os.path.join(src, "notes.md")).read().strip().split("\n")[0][:300] if os.path.exists(os.path.join(src, "notes.md")) else "",
    "needs_to_manifest": needs,
    "author": "independent sub-agent given only the property text and a scratch worktree",
    "confirmed": {
        "how": "tools/verify_seeded.sh in a scratch worktree: full test suite with the change, demo (rscel/tests/demo.rs) with and without the change",
        "result": ver,
        "repo_head_when_checked": head,
    },
    "checks_run": f"tools/try_seeded.sh patch.diff {pid} quick (git apply in /repo, ./check, git checkout -- .)",
    "detected_by": det,
}
json.dump(meta, open(os.path.join(dst, "meta.json"), "w"), indent=1)
print("kept", dst)
