#!/bin/bash
# usage: tools/try_batch.sh <ID> [check-ID] [tier]  -> runs the check against every /tmp/seeded/<ID>/m*/patch.diff; output in /tmp/seeded/<ID>/try.txt
ID="$1"; CK="${2:-$1}"; TIER="${3:-quick}"
OUT=${SEEDED_BASE:-/tmp/seeded}/$ID/try-$CK.txt
: > "$OUT"
for d in ${SEEDED_BASE:-/tmp/seeded}/$ID/m*/; do
  echo "== $(basename $d)" >> "$OUT"
  /verif/tools/try_seeded.sh "$d/patch.diff" "$CK" "$TIER" >> "$OUT" 2>&1
done
echo DONE >> "$OUT"
